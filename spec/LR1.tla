------------------------------- MODULE LR1 -------------------------------
(***************************************************************************)
(* Grammars as data, and the textbook canonical-LR(1) construction.        *)
(*                                                                         *)
(* Code modelled: ctpg.hpp  parser<...>::grammar_info, analyze_rules,      *)
(* calculate_rule_precedence/associativity, state_analyzer (closure,       *)
(* transitions, solve_conflict, make_*_first, make_*_empty).               *)
(*                                                                         *)
(* The module is deliberately NOT a transcription of state_analyzer: FIRST *)
(* and nullability are least fixpoints, closure is a true fixpoint.  The   *)
(* only things taken from the implementation are                           *)
(*   - the symbol numbering (nonterminals in nterms() order, the fake root *)
(*     "##" last; terms in terms() order, then <eof>, then <error>),       *)
(*   - the discovery order of states (state major, symbol index minor), so *)
(*     that state numbers coincide when nothing is wrong (comparisons are  *)
(*     nevertheless done modulo renaming, see ProductTable.tla),           *)
(*   - the documented precedence rules (readme "Precedence and             *)
(*     associativity summary").                                            *)
(*                                                                         *)
(* A grammar G (read from JSON) is a record                                *)
(*   nnt   : number of declared nonterminals (ids 0..nnt-1; fake root=nnt) *)
(*   nt    : number of declared terms (ids TB+0..TB+nt-1; eof=TB+nt;       *)
(*           err=TB+nt+1)                                                  *)
(*   root  : id of the root nonterminal                                    *)
(*   rules : sequence of [l, r, prec]  (source order; rule number i-1)     *)
(*   tprec, tassoc : per declared term (assoc 0 none, 1 ltor, 2 rtol)      *)
(***************************************************************************)
EXTENDS Naturals, Integers, Sequences, FiniteSets, TLC

TB == 100                      \* first terminal id
IsT(s) == s >= TB
Eof(G) == TB + G.nt
Err(G) == TB + G.nt + 1
Range(f) == {f[i] : i \in DOMAIN f}

\* all rules, the augmented root rule "## <- root" last (as analyze_rules does)
XRules(G) == Append(G.rules, [l |-> G.nnt, r |-> <<G.root>>, prec |-> 0])
RootRule(G) == Len(G.rules) + 1
NTs(G)   == 0..G.nnt
Terms(G) == {TB + j : j \in 0..(G.nt + 1)}
SymOrder(G) == [i \in 1..(G.nnt + 1 + G.nt + 2) |->
                  IF i <= G.nnt + 1 THEN i - 1 ELSE TB + (i - G.nnt - 2)]

TPrec(G, t)  == IF t - TB < G.nt THEN G.tprec[t - TB + 1] ELSE 0
TAssoc(G, t) == IF t - TB < G.nt THEN G.tassoc[t - TB + 1] ELSE 0

\* last term of a right side, or -1
LastTerm(r) == LET ts == {k \in 1..Len(r) : IsT(r[k])} IN
               IF ts = {} THEN -1 ELSE r[CHOOSE k \in ts : \A k2 \in ts : k2 <= k]
\* readme: explicit [n] if given (n # 0: the API cannot express an explicit 0), else that of the last term, else 0
RulePrec(G, rule)  == IF rule.prec # 0 THEN rule.prec
                      ELSE LET lt == LastTerm(rule.r) IN IF lt = -1 THEN 0 ELSE TPrec(G, lt)
RuleAssoc(G, rule) == LET lt == LastTerm(rule.r) IN IF lt = -1 THEN 0 ELSE TAssoc(G, lt)
\* readme rules 1-4: TRUE = reduce, FALSE = shift
PreferReduce(G, rule, t) == \/ RulePrec(G, rule) > TPrec(G, t)
                            \/ (RulePrec(G, rule) = TPrec(G, t) /\ RuleAssoc(G, rule) = 1)

(***************************************************************************)
(* Nullable / FIRST as least fixpoints.  R = XRules(G) is passed around so *)
(* that it is built once.                                                  *)
(***************************************************************************)
RECURSIVE NullFix(_, _)
NullFix(R, S) ==
  LET S2 == S \cup {R[i].l : i \in {j \in 1..Len(R) : \A k \in 1..Len(R[j].r) : R[j].r[k] \in S}}
  IN IF S2 = S THEN S ELSE NullFix(R, S2)

RECURSIVE FirstSeqF(_, _, _, _)
FirstSeqF(F, N, s, k) ==      \* FIRST of s[k..] given FIRST function F and nullable set N
  IF k > Len(s) THEN {}
  ELSE IF IsT(s[k]) THEN {s[k]}
  ELSE F[s[k]] \cup (IF s[k] \in N THEN FirstSeqF(F, N, s, k + 1) ELSE {})

RECURSIVE FirstFix(_, _, _, _)
FirstFix(R, N, nts, F) ==
  LET F2 == TLCEval([A \in nts |-> F[A] \cup UNION {FirstSeqF(F, N, R[i].r, 1) : i \in {j \in 1..Len(R) : R[j].l = A}}])
  IN IF F2 = F THEN F ELSE FirstFix(R, N, nts, F2)

RECURSIVE SeqNullable(_, _, _)
SeqNullable(N, s, k) == k > Len(s) \/ (~IsT(s[k]) /\ s[k] \in N /\ SeqNullable(N, s, k + 1))

(***************************************************************************)
(* Items <<r, d, a>>: rule index (1-based into R), dot position 0..len,    *)
(* lookahead terminal.                                                     *)
(***************************************************************************)
NextSym(R, i) == IF i[2] < Len(R[i[1]].r) THEN R[i[1]].r[i[2] + 1] ELSE -1

\* one closure round: items contributed by item i
ItemClosure(R, N, F, i) ==
  LET X == NextSym(R, i) IN
  IF X = -1 \/ IsT(X) THEN {}
  ELSE LET rhs == R[i[1]].r
           las == FirstSeqF(F, N, rhs, i[2] + 2) \cup (IF SeqNullable(N, rhs, i[2] + 2) THEN {i[3]} ELSE {})
       IN {<<j, 0, b>> : j \in {q \in 1..Len(R) : R[q].l = X}, b \in las}

RECURSIVE Closure(_, _, _, _, _)
Closure(R, N, F, I, frontier) ==      \* I closed so far, frontier = items not yet expanded
  IF frontier = {} THEN I
  ELSE LET add == (UNION {ItemClosure(R, N, F, i) : i \in frontier}) \ I
       IN Closure(R, N, F, I \cup add, add)

Kernel(R, I, X) == {<<i[1], i[2] + 1, i[3]>> : i \in {k \in I : NextSym(R, k) = X}}
Reds(R, I, t) == {i[1] : i \in {k \in I : k[2] = Len(R[k[1]].r) /\ k[3] = t}}

(***************************************************************************)
(* Cell of the table for a closed item set I and a symbol X, before the    *)
(* target state number is known: <<kind, rule>> with kind in                *)
(* "error","accept","shift","reduce","rr","goto"; sr = S/R conflict flag.  *)
(* Conflicts involving the accept item or two reductions are "rr"          *)
(* (undefined behaviour per the readme; reported, never executed by the    *)
(* checks).                                                                *)
(***************************************************************************)
CellKind(G, R, I, X) ==
  IF ~IsT(X) THEN (IF Kernel(R, I, X) = {} THEN <<"error", 0, FALSE>> ELSE <<"goto", 0, FALSE>>)
  ELSE LET rs == Reds(R, I, X)
           sh == Kernel(R, I, X) # {}
       IN IF rs = {} THEN (IF sh THEN <<"shift", 0, FALSE>> ELSE <<"error", 0, FALSE>>)
          ELSE IF Cardinality(rs) > 1 THEN <<"rr", 0, sh>>
          ELSE LET r == CHOOSE x \in rs : TRUE IN
               IF r = Len(R) THEN (IF sh THEN <<"rr", 0, TRUE>> ELSE <<"accept", 0, FALSE>>)
               ELSE IF ~sh THEN <<"reduce", r, FALSE>>
               ELSE IF PreferReduce(G, R[r], X) THEN <<"reduce", r, TRUE>> ELSE <<"shift", r, TRUE>>

Follows(ck) == ck[1] \in {"shift", "goto"}

(***************************************************************************)
(* The collection, built in the implementation's discovery order.          *)
(* Result: [ks : Seq of kernels, tr : set of <<from, sym, to>>].           *)
(* Recursion depth is #states + #symbols (never their product).            *)
(***************************************************************************)
RECURSIVE AddSyms(_, _, _, _, _, _, _, _)
AddSyms(G, R, so, ks, tr, cst, C, si) ==
  IF si > Len(so) THEN [ks |-> ks, tr |-> tr]
  ELSE LET X == so[si]
           K == Kernel(R, C, X)
       IN IF K = {} \/ ~Follows(CellKind(G, R, C, X)) THEN AddSyms(G, R, so, ks, tr, cst, C, si + 1)
          ELSE LET ex == {j \in 1..Len(ks) : ks[j] = K}
               IN IF ex # {} THEN AddSyms(G, R, so, ks, tr \cup {<<cst, X, CHOOSE j \in ex : TRUE>>}, cst, C, si + 1)
                  ELSE AddSyms(G, R, so, Append(ks, K), tr \cup {<<cst, X, Len(ks) + 1>>}, cst, C, si + 1)

RECURSIVE BuildLR(_, _, _, _, _, _, _, _)
BuildLR(G, R, N, F, so, ks, tr, cst) ==
  IF cst > Len(ks) THEN [ks |-> ks, tr |-> tr]
  ELSE LET r == AddSyms(G, R, so, ks, tr, cst, Closure(R, N, F, ks[cst], ks[cst]), 1)
       IN BuildLR(G, R, N, F, so, r.ks, r.tr, cst + 1)

(***************************************************************************)
(* Analyze(G): everything the other modules need, as one record.           *)
(*   states[s]  : closed item set of state s (1-based; state number s-1)   *)
(*   tbl[s][X]  : <<kind, arg, sr>>; arg = target state number (0-based)   *)
(*                for shift/goto/shifterr, source rule number (0-based)    *)
(*                for reduce; for an S/R cell resolved to shift, `rule'    *)
(*                (4th component) is the rule that lost.                   *)
(***************************************************************************)
Analyze(G) ==
  LET R   == XRules(G)
      N   == NullFix(R, {})
      F   == FirstFix(R, N, NTs(G), [A \in NTs(G) |-> {}])
      so  == SymOrder(G)
      k0  == {<<Len(R), 0, Eof(G)>>}
      lr  == BuildLR(G, R, N, F, so, <<k0>>, {}, 1)
      sts == TLCEval([s \in 1..Len(lr.ks) |-> Closure(R, N, F, lr.ks[s], lr.ks[s])])
      syms == Range(so)
      tgt(s, X) == LET m == {t \in lr.tr : t[1] = s /\ t[2] = X} IN (CHOOSE t \in m : TRUE)[3] - 1
      cell(s, X) == LET ck == CellKind(G, R, sts[s], X) IN
                    CASE ck[1] = "goto"   -> <<"goto", tgt(s, X), FALSE, -1>>
                      [] ck[1] = "shift"  -> <<IF X = Err(G) THEN "shifterr" ELSE "shift", tgt(s, X), ck[3], ck[2] - 1>>
                      [] ck[1] = "reduce" -> <<"reduce", ck[2] - 1, ck[3], ck[2] - 1>>
                      [] OTHER            -> <<ck[1], -1, ck[3], -1>>
  IN [ R |-> R, null |-> N, first |-> F, so |-> so,
       kernels |-> lr.ks, states |-> sts,
       tbl |-> TLCEval([s \in 1..Len(lr.ks) |-> TLCEval([X \in syms |-> cell(s, X)])]),
       conflicts |-> {<<s, X>> \in (1..Len(lr.ks)) \X syms : IsT(X) /\ (CellKind(G, R, sts[s], X)[3] \/ CellKind(G, R, sts[s], X)[1] = "rr")},
       rr |-> {<<s, X>> \in (1..Len(lr.ks)) \X syms : IsT(X) /\ CellKind(G, R, sts[s], X)[1] = "rr"} ]

(***************************************************************************)
(* Derivation oracle, independent of LR: sentences of length <= L of every *)
(* nonterminal by fixpoint on sets of strings; viable prefixes of the root.*)
(***************************************************************************)
CatL(A, B, L) == {p[1] \o p[2] : p \in {q \in A \X B : Len(q[1]) + Len(q[2]) <= L}}

RECURSIVE LangSeq(_, _, _, _)
LangSeq(Lg, s, k, L) ==
  IF k > Len(s) THEN {<<>>}
  ELSE CatL(IF IsT(s[k]) THEN {<<s[k]>>} ELSE Lg[s[k]], LangSeq(Lg, s, k + 1, L), L)

RECURSIVE LangFix(_, _, _, _)
LangFix(R, nts, Lg, L) ==
  LET L2 == TLCEval([A \in nts |-> Lg[A] \cup UNION {LangSeq(Lg, R[i].r, 1, L) : i \in {j \in 1..Len(R) : R[j].l = A}}])
  IN IF L2 = Lg THEN Lg ELSE LangFix(R, nts, L2, L)
Lang(G, L) == LangFix(XRules(G), NTs(G), [A \in NTs(G) |-> {}], L)

\* nonterminals that derive at least one terminal string
RECURSIVE ProdFix(_, _)
ProdFix(R, S) ==
  LET S2 == S \cup {R[i].l : i \in {j \in 1..Len(R) : \A k \in 1..Len(R[j].r) : IsT(R[j].r[k]) \/ R[j].r[k] \in S}}
  IN IF S2 = S THEN S ELSE ProdFix(R, S2)

\* nonterminals reachable from the root
RECURSIVE ReachFix(_, _)
ReachFix(R, S) ==
  LET S2 == S \cup UNION {{R[i].r[k] : k \in {q \in 1..Len(R[i].r) : ~IsT(R[i].r[q])}} : i \in {j \in 1..Len(R) : R[j].l \in S}}
  IN IF S2 = S THEN S ELSE ReachFix(R, S2)
\* every reachable nonterminal derives some terminal string (the standing assumption of LR theory for the
\* valid-prefix property: without it the automaton legitimately reads on inside a sentence that cannot be completed)
ReducedReachable(G) == LET R == XRules(G) IN ReachFix(R, {G.nnt}) \subseteq ProdFix(R, {})

\* prefixes (length <= L) of sentences of arbitrary length
Prefixes(S) == UNION {{SubSeq(w, 1, n) : n \in 0..Len(w)} : w \in S}
RECURSIVE PrefSeq(_, _, _, _, _, _)
PrefSeq(Lg, Pf, P, s, k, L) ==     \* prefixes of yields of s[k..]; every symbol of s is productive
  IF k > Len(s) THEN {<<>>}
  ELSE LET full == IF IsT(s[k]) THEN {<<s[k]>>} ELSE Lg[s[k]]
           part == IF IsT(s[k]) THEN {<<>>, <<s[k]>>} ELSE Pf[s[k]]
       IN part \cup CatL(full, PrefSeq(Lg, Pf, P, s, k + 1, L), L)
RECURSIVE PrefFix(_, _, _, _, _, _)
PrefFix(R, nts, Lg, P, Pf, L) ==
  LET ok(j) == \A k \in 1..Len(R[j].r) : IsT(R[j].r[k]) \/ R[j].r[k] \in P
      P2 == TLCEval([A \in nts |-> Pf[A] \cup UNION {PrefSeq(Lg, Pf, P, R[i].r, 1, L) : i \in {j \in 1..Len(R) : R[j].l = A /\ ok(j)}}])
  IN IF P2 = Pf THEN Pf ELSE PrefFix(R, nts, Lg, P, P2, L)
PrefLang(G, L) == LET R == XRules(G) IN
                  PrefFix(R, NTs(G), Lang(G, L), ProdFix(R, {}), [A \in NTs(G) |-> {}], L)
=============================================================================
