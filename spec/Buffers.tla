------------------------------ MODULE Buffers ------------------------------
(***************************************************************************)
(* The buffer interface the readme documents ("Buffers"): a buffer over a  *)
(* text exposes begin() / end() iterators and get_view(start, end); an     *)
(* iterator offers  *it,  ++it,  it++,  ==  (the library's own buffers     *)
(* also  != ,  += n,  + n).  Abstractly an iterator is a position          *)
(* 0..Len(text); nothing else is state.                                    *)
(*                                                                         *)
(* TLC enumerates every walk of at most MaxOps operations over every text  *)
(* of Texts and prints it with what each step must show (CASE lines); the  *)
(* orchestrator turns the cases into one translation unit in which each    *)
(* walk is executed on the REAL buffers: cstring_buffer during constant    *)
(* evaluation (static_assert) and at run time, string_buffer and           *)
(* string_view_buffer (a window into a larger text) at run time.           *)
(* C07: constant evaluation is valid for every documented operation, and   *)
(* all buffer kinds show the same text.                                    *)
(***************************************************************************)
EXTENDS Naturals, Integers, Sequences, TLC, Json

CONSTANTS MaxOps
\* the texts walked over (byte values; NUL, newline, blank and bytes >= 0x80 included)
Texts == {<<>>, <<97>>, <<97, 0, 98>>, <<200, 10, 32, 255>>}

Ops == {"pre", "post", "add1", "add2", "plus1", "view"}
VARIABLES txt, pos, walk      \* walk: the operations made, each with what it showed
vars == <<txt, pos, walk>>

Init == txt \in Texts /\ pos = 0 /\ walk = <<>>

\* what is visible at a position: the byte there (or -1 at the end), whether it is the end
Here(t, p) == [at |-> p, ch |-> IF p < Len(t) THEN t[p + 1] ELSE -1, end |-> p = Len(t)]
Step(op) ==
  /\ Len(walk) < MaxOps
  /\ LET n == CASE op \in {"pre", "post", "add1", "plus1"} -> 1 [] op = "add2" -> 2 [] OTHER -> 0 IN
     /\ pos + n <= Len(txt)                    \* moving past end() is outside the interface
     /\ pos' = pos + n
     \* ret: the position of the iterator the expression itself yields (it++ yields the OLD position)
     /\ walk' = Append(walk, [op |-> op, ret |-> IF op = "post" THEN pos ELSE pos + n, now |-> Here(txt, pos + n),
                              view |-> SubSeq(txt, 1, pos + n)])      \* get_view(begin(), it)
  /\ UNCHANGED txt
Next == \E op \in Ops : Step(op)
Spec == Init /\ [][Next]_vars

TypeOK == pos \in 0..Len(txt)
\* every reachable walk is a case
CaseReported == PrintT(<<"BUFCASE", ToJson([text |-> txt, walk |-> walk])>>)
=============================================================================
