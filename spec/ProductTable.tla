---------------------------- MODULE ProductTable ----------------------------
(***************************************************************************)
(* Artefact product check (B): the parse table DUMPED from the real parser *)
(* object against the specification's canonical LR(1) table.               *)
(*                                                                         *)
(* Dynamic part: both tables drive a stack on the same token sequence,     *)
(* chosen token by token by TLC (no input length bound; stacks bounded by  *)
(* DEPTH).  After each token both sides must be in the same situation      *)
(* (running / accepted / rejected) and must have performed the same        *)
(* reductions.  BFS makes the first DISAGREE the shortest distinguishing   *)
(* input; the orchestrator executes it against the real parse().           *)
(*                                                                         *)
(* Static part (initial states only): rules as the parser stored them,     *)
(* item sets (= closure of their kernel), and every cell, modulo the       *)
(* renaming of states induced by equal item sets.  Static differences are  *)
(* reported as STATIC lines (notes for the evidence; only behaviour is an  *)
(* alarm).                                                                 *)
(***************************************************************************)
EXTENDS Tables

CONSTANTS DEPTH, FUEL

VARIABLES g, rstk, sstk, vreal, vspec, wit, bad
vars == <<g, rstk, sstk, vreal, vspec, wit, bad>>
vw == <<g, rstk, sstk, vreal, vspec, bad # <<>> >>

PTop(s) == s[Len(s)]
UsedTerms(gg) == {TB + Gs[gg].uterms[i] : i \in 1..Len(Gs[gg].uterms)} \cup {Eof(Gs[gg])}

CellOf(side, gg, s, X) == IF side = 1 THEN DumpCell(gg, s, X) ELSE SpecCell(gg, s, X)

RECURSIVE Run(_, _, _, _, _, _)
Run(side, gg, st, t, fuel, reds) ==
  LET c == CellOf(side, gg, PTop(st), t) IN
  IF c[1] = "reduce" THEN
     IF fuel = 0 THEN [st |-> st, v |-> "loop", reds |-> reds]
     ELSE IF c[2] < 0 \/ c[2] >= Len(A[gg].R) THEN [st |-> st, v |-> "stuck", reds |-> reds]
     ELSE LET rule == A[gg].R[c[2] + 1]
              n == Len(rule.r)
          IN IF n >= Len(st) THEN [st |-> st, v |-> "stuck", reds |-> reds]
             ELSE LET b == SubSeq(st, 1, Len(st) - n)
                      gc == CellOf(side, gg, PTop(b), rule.l)
                  IN IF gc[2] < 0 THEN [st |-> st, v |-> "stuck", reds |-> reds]
                     ELSE Run(side, gg, Append(b, gc[2]), t, fuel - 1, Append(reds, c[2]))
  ELSE IF c[1] = "shift" THEN [st |-> Append(st, c[2]), v |-> "run", reds |-> reds]
  ELSE IF c[1] = "accept" THEN [st |-> st, v |-> "acc", reds |-> reds]
  ELSE IF c[1] = "rr" THEN [st |-> st, v |-> "undef", reds |-> reds]
  ELSE [st |-> st, v |-> "rej", reds |-> reds]

Init == \E gg \in 1..NG : g = gg /\ rstk = <<0>> /\ sstk = <<0>> /\ vreal = "run" /\ vspec = "run" /\ wit = <<>> /\ bad = <<>>

\* A side that has finished (accepted / rejected / ...) stays frozen while the other goes on, so that a
\* disagreement is reported on a COMPLETE input: one side accepts what the other rejects.
Next ==
  /\ bad = <<>> /\ (vreal = "run" \/ vspec = "run")
  /\ \E t \in UsedTerms(g) :
       LET a == IF vreal = "run" THEN Run(1, g, rstk, t, FUEL, <<>>) ELSE [st |-> rstk, v |-> vreal, reds |-> <<>>]
           b == IF vspec = "run" THEN Run(2, g, sstk, t, FUEL, <<>>) ELSE [st |-> sstk, v |-> vspec, reds |-> <<>>]
       IN /\ rstk' = a.st /\ sstk' = b.st /\ vreal' = a.v /\ vspec' = b.v /\ wit' = Append(wit, t)
          /\ bad' = IF a.v = "undef" \/ b.v = "undef" THEN <<"undef">>      \* R/R: undefined behaviour, nothing to compare
                    ELSE IF a.v \in {"loop", "stuck"} THEN <<"broken", a.v, b.v>>
                    ELSE IF vreal = "run" /\ vspec = "run" /\ a.v = b.v /\ a.reds # b.reds THEN <<"reductions", a.reds, b.reds>>
                    ELSE IF a.v # "run" /\ b.v # "run" /\ a.v # b.v THEN <<"verdict", a.v, b.v>>
                    ELSE <<>>
          /\ Len(a.st) <= DEPTH /\ Len(b.st) <= DEPTH
  /\ UNCHANGED g
Spec == Init /\ [][Next]_vars

Reported == bad = <<>> \/ bad = <<"undef">> \/ PrintT(<<"DISAGREE", ToJson([g |-> Gs[g].id, w |-> wit, why |-> bad])>>)
\* first token after which exactly one side has given up (error detected at different places): relevant to C09
EarlyReported == ~(vreal # vspec /\ bad = <<>> /\ (vreal = "run" \/ vspec = "run") /\ Len(wit) > 0)
                 \/ PrintT(<<"EARLY", ToJson([g |-> Gs[g].id, w |-> wit, vr |-> vreal, vs |-> vspec])>>)

(************************* static comparison ******************************)
DumpItems(gg, s) == {<<x[1] + 1, x[2], x[3]>> : x \in Range(Ds[gg].states[s])}
RulesStored(gg) ==
  /\ Len(Ds[gg].rules) = Len(A[gg].R)
  /\ \A i \in 1..Len(A[gg].R) :
       /\ Ds[gg].rules[i].l = A[gg].R[i].l /\ Ds[gg].rules[i].r = A[gg].R[i].r
       /\ Ds[gg].rules[i].prec = RulePrec(Gs[gg], A[gg].R[i])
       /\ Ds[gg].rules[i].assoc = RuleAssoc(Gs[gg], A[gg].R[i])
       /\ Ds[gg].rules[i].last = LastTerm(A[gg].R[i].r)
\* state renaming induced by equal item sets: real state s (1-based) -> spec state, 0 if none
Phi(gg) == [s \in 1..Ds[gg].state_count |->
              LET m == {q \in 1..Len(A[gg].states) : A[gg].states[q] = DumpItems(gg, s)} IN
              IF m = {} THEN 0 ELSE CHOOSE q \in m : TRUE]
CellSame(gg, phi, s, X) ==
  LET rc == DumpCell(gg, s - 1, X) sc == SpecCell(gg, phi[s] - 1, X) IN
  /\ (IF sc[1] = "goto" THEN rc[1] = "shift" ELSE rc[1] = sc[1])
  /\ (sc[1] \in {"shift", "shifterr", "goto"} => phi[rc[2] + 1] = sc[2] + 1)
  /\ (sc[1] = "reduce" => rc[2] = sc[2])
  /\ (IsT(X) /\ sc[1] # "rr" => (rc[3] = 1) = sc[3])
StaticProblems(gg) ==
  LET phi == Phi(gg) IN
  IF ~RulesStored(gg) THEN <<"rules">>
  ELSE IF \E s \in DOMAIN phi : phi[s] = 0 THEN <<"itemset", CHOOSE s \in DOMAIN phi : phi[s] = 0>>
  ELSE IF Ds[gg].state_count # Len(A[gg].states) THEN <<"statecount", Ds[gg].state_count, Len(A[gg].states)>>
  ELSE LET diff == {<<s, X>> \in (DOMAIN phi) \X Range(A[gg].so) : ~CellSame(gg, phi, s, X)} IN
       IF diff = {} THEN <<>> ELSE <<"cell", CHOOSE d \in diff : TRUE>>
StaticReported == wit # <<>> \/ StaticProblems(g) = <<>> \/ PrintT(<<"STATIC", ToJson([g |-> Gs[g].id, why |-> StaticProblems(g)])>>)
\* C12: the capacities the parser derived for itself against what the specification says the grammar needs
\* (default limits: situation_count = sum over rules of (length + 1), times the number of terms, plus 2)
NeedStates(gg) == Len(A[gg].states)
NeedItems(gg) == LET m == {Cardinality(A[gg].states[q]) : q \in 1..Len(A[gg].states)} IN CHOOSE x \in m : \A y \in m : y <= x
DefaultCap(gg) == LET R == A[gg].R
                      RECURSIVE Sum(_) Sum(i) == IF i = 0 THEN 0 ELSE (IF i = Len(R) THEN 0 ELSE Len(R[i].r) + 1) + Sum(i - 1)
                  IN Sum(Len(R)) * (Gs[gg].nt + 2) + 2
CapProblems(gg) ==
  IF Ds[gg].state_count > Ds[gg].state_cap THEN <<"more states than the cap", Ds[gg].state_count, Ds[gg].state_cap>>
  ELSE IF \E s \in 1..Ds[gg].state_count : Len(Ds[gg].states[s]) > Ds[gg].item_cap THEN <<"more items in a state than the cap", Ds[gg].item_cap>>
  ELSE IF Gs[gg].deflimits /\ (Ds[gg].state_cap # DefaultCap(gg) \/ Ds[gg].item_cap # DefaultCap(gg)) THEN <<"default cap differs from the documented formula", Ds[gg].state_cap, DefaultCap(gg)>>
  ELSE IF Gs[gg].deflimits /\ NeedStates(gg) > DefaultCap(gg) THEN <<"grammar needs more states than the default cap", NeedStates(gg), DefaultCap(gg)>>
  ELSE IF Gs[gg].deflimits /\ NeedItems(gg) > DefaultCap(gg) THEN <<"grammar needs more items per state than the default cap", NeedItems(gg), DefaultCap(gg)>>
  ELSE <<>>
CapsReported == wit # <<>> \/ (CapProblems(g) = <<>> /\ PrintT(<<"CAPSOK", ToJson([g |-> Gs[g].id, states |-> NeedStates(g), items |-> NeedItems(g), cap |-> Ds[g].state_cap, icap |-> Ds[g].item_cap, defcap |-> DefaultCap(g)])>>))
                \/ PrintT(<<"CAPS", ToJson([g |-> Gs[g].id, why |-> CapProblems(g)])>>)
\* conflicts as the specification sees them, for the orchestrator (domain of C01 / C05 / C11)
ConflictsReported == wit # <<>> \/ PrintT(<<"CONFLICTS", ToJson([g |-> Gs[g].id, n |-> Cardinality(A[g].conflicts), rr |-> Cardinality(A[g].rr), states |-> Len(A[g].states)])>>)
=============================================================================
