SPECIFICATION Spec
CONSTANTS
  L = 4
  WSBYTES = {}
INVARIANTS
  Safe
  AcceptsExactlyTheLanguage
  ResultIsDerivationTree
  ReportedOnceAtTheRightPlace
CHECK_DEADLOCK FALSE
