------------------------------ MODULE GrammarWF ------------------------------
(***************************************************************************)
(* C17 (grammar half): a rule set that mentions a symbol not declared in   *)
(* terms(...) / nterms(...) (or a nonterminal with an empty name) must be  *)
(* refused when the parser is constructed - exception at run time, not a   *)
(* constant expression at compile time.  Items are descriptions of the     *)
(* translation units the orchestrator generated together with what the     *)
(* real library did with them.                                             *)
(***************************************************************************)
EXTENDS Naturals, Sequences, FiniteSets, TLC, Json, IOUtils

Items == ndJsonDeserialize(IOEnv.VERIF_WF)
SetOfSeq(sq) == {sq[i] : i \in DOMAIN sq}

WellFormed(it) ==
  LET nts == SetOfSeq(it.nterms) ts == SetOfSeq(it.terms) IN
  /\ "" \notin nts
  /\ it.root \in nts
  /\ \A k \in DOMAIN it.rules : /\ it.rules[k].l \in nts
                                \* a symbol of a rule is a term OBJECT or a nonterminal OBJECT: it must be declared among
                                \* its own kind (a declared nonterminal of the same name does not declare a term)
                                /\ \A x \in SetOfSeq(it.rules[k].r) : IF x.k = "n" THEN x.s \in nts ELSE x.s \in ts \cup {"error"}

VARIABLE wx
Init == wx \in 1..Len(Items)
Next == UNCHANGED wx
Spec == Init /\ [][Next]_wx

Problem(it) ==
  IF WellFormed(it) THEN (IF ~it.constructed THEN <<"well-formed grammar refused", it.threw>>
                          ELSE IF ~it.ct_ok THEN <<"well-formed grammar is not a constant expression">> ELSE <<>>)
  ELSE IF it.constructed THEN <<"parser constructed although a symbol is undeclared">>
  ELSE IF it.ct_ok THEN <<"constant evaluation accepted a grammar with an undeclared symbol">>
  ELSE <<>>
Reported == Problem(Items[wx]) = <<>> \/ PrintT(<<"WF", ToJson([id |-> Items[wx].id, why |-> Problem(Items[wx])])>>)
Classes == PrintT(<<"WFCLASS", ToJson([id |-> Items[wx].id, wf |-> WellFormed(Items[wx])])>>)
=============================================================================
