SPECIFICATION Spec
CONSTANTS
  DEPTH = 8
  FUEL = 40
INVARIANTS
  Reported
  StaticReported
  ConflictsReported
VIEW vw
CHECK_DEADLOCK FALSE
