------------------------------ MODULE Driver ------------------------------
(***************************************************************************)
(* The table-driven push-down driver of ctpg (parser::context_parse and    *)
(* the helpers it calls), one action per line the real driver can print in *)
(* verbose mode (plus the silent steps), so that a recorded execution can  *)
(* be matched event for event.                                             *)
(*                                                                         *)
(* Code modelled (ctpg.hpp): context_parse loop, get_current_term,         *)
(* skip_whitespace, shift, shift_recovery_token, reduce, pop_stacks,       *)
(* syntax_error, success, consume_term, consume_term_recovering,           *)
(* enter/leave_recovery_mode, enter/leave_consume_mode, unexpected_char,   *)
(* trace_recognized_term, source_point::update.                            *)
(*                                                                         *)
(* Deliberate choice: error recovery follows the DOCUMENTED algorithm      *)
(* (readme "Error recovery"): states are popped only while the top state   *)
(* has no action on <error_recovery_token>.                                *)
(*                                                                         *)
(* Every action sets ev' to the event the real parser must emit for that   *)
(* step: a tuple <<kind, ...>>; <<"tau">> for a silent step.               *)
(*                                                                         *)
(* The module is parameterised by operators the including module defines   *)
(* BEFORE extending... TLA+ has no forward references, so the parameters   *)
(* are CONSTANT operators, instantiated by the MC / Trace modules:         *)
(*   RCell(g, s, X)  cell <<kind, arg, sr>> of the table being driven       *)
(*                   (dumped from the real object, or the spec's own)      *)
(*   SCell(g, s, X)  cell of the specification's canonical table           *)
(*   LexAt(g, b, p, zd) <<term id, length>> of the token starting at 0-based*)
(*                   offset p of byte sequence b, or <<-1, 0>>             *)
(*   GR(g)           [nnt, nt, R (rules incl. root rule), tnames, ntnames, *)
(*                    ruletext, obsT, obsC]                                *)
(***************************************************************************)
EXTENDS Naturals, Integers, Sequences, FiniteSets, TLC

CONSTANTS RCell(_, _, _), SCell(_, _, _), LexAt(_, _, _, _), GR(_),
          LexLines(_, _, _, _, _, _)   \* (g, bytes, offset, line, col, verbose): the lines the generated lexer prints for this
                                         \* match in verbose mode, as events (<<>> when not modelled / not verbose)

VARIABLES g, inp, opt,          \* grammar index, input bytes, options [v, ws, nl]
          stack, sstack,        \* state stacks: numbers of the driven table / of the spec's table
          vals,                 \* value stack: node ids; -2 = value of the error token
          nodes,                \* nodes[id+1] = [k, sym, ch, off, len, line, col] (trees built so far)
          it, endIt, cur,       \* current_it, current_end_it (0-based offsets), current_term_idx (symbol id or -1)
          line, col,            \* current_sp
          mode,                 \* "normal" | "recovery" | "consume"
          ph,                   \* phase inside one loop iteration
          status,               \* "run" | "acc" | "rej" | "undef" (R/R cell reached: behaviour undefined)
          msgs,                 \* messages written in non-verbose mode, in order
          red,                  \* rule being reduced between the Reduce, Goto and Call steps (-1 otherwise)
          mxd,                  \* ghost: greatest stack length reached so far (capacity analysis, C12)
          lexev,                \* ghost: lexer lines that precede the event of the last GetTerm step (C16: truthful trace)
          ev                    \* event emitted by the last step

dvars == <<g, inp, opt, stack, sstack, vals, nodes, it, endIt, cur, line, col, mode, ph, status, msgs, red, mxd, lexev, ev>>

TB == 100
EofOf(gg) == TB + GR(gg).nt
ErrOf(gg) == TB + GR(gg).nt + 1
Top(s) == s[Len(s)]
TName(gg, t) == GR(gg).tnames[t - TB + 1]

WsSet(o) == IF ~o.ws THEN {} ELSE IF o.nl THEN {9, 10, 11, 12, 13, 32} ELSE {9, 11, 12, 13, 32}

\* source_point::update over inp[(a+1)..b]  (0-based half-open [a, b)); chunked recursion (depth stays small for long lexemes)
RECURSIVE SpUpdC(_, _, _, _, _, _)
SpUpdC(b, a, e, l, c, fuel) == IF a >= e \/ fuel = 0 THEN <<l, c, a>>
                               ELSE IF b[a + 1] = 10 THEN SpUpdC(b, a + 1, e, l + 1, 1, fuel - 1) ELSE SpUpdC(b, a + 1, e, l, c + 1, fuel - 1)
RECURSIVE SpUpd(_, _, _, _, _)
SpUpd(b, a, e, l, c) == LET r == SpUpdC(b, a, e, l, c, 256) IN IF r[3] >= e THEN <<r[1], r[2]>> ELSE SpUpd(b, r[3], e, r[1], r[2])
RECURSIVE SkipWsC(_, _, _, _)
SkipWsC(b, p, ws, fuel) == IF fuel > 0 /\ p < Len(b) /\ b[p + 1] \in ws THEN SkipWsC(b, p + 1, ws, fuel - 1) ELSE p
RECURSIVE SkipWs(_, _, _)
SkipWs(b, p, ws) == LET q == SkipWsC(b, p, ws, 256) IN IF q = p + 256 THEN SkipWs(b, q, ws) ELSE q

ErrTokBytes == <<60,101,114,114,111,114,95,114,101,99,111,118,101,114,121,95,116,111,107,101,110,62>>

Init0(gg, bytes, o) ==
  /\ g = gg /\ inp = bytes /\ opt = o
  /\ stack = <<0>> /\ sstack = <<0>> /\ vals = <<>> /\ nodes = <<>>
  /\ it = 0 /\ endIt = 0 /\ cur = -1 /\ line = 1 /\ col = 1
  /\ mode = "normal" /\ ph = "top" /\ status = "run" /\ msgs = <<>> /\ red = -1 /\ mxd = 1 /\ lexev = <<>> /\ ev = <<"tau">>

NeedTerm == (ph = "top" /\ mode # "recovery" /\ it = endIt) \/ ph = "lexed"
HaveTerm == ph = "act" \/ (ph = "top" /\ (mode = "recovery" \/ it # endIt))
T == IF mode = "recovery" THEN ErrOf(g) ELSE cur
Cell == RCell(g, Top(stack), T)
SpecCellNow == SCell(g, Top(sstack), T)
\* the two tables must prescribe the same action (kind, and rule for reductions); state numbers may differ
SameAction(rc, sc) == rc[1] = sc[1] /\ (rc[1] = "reduce" => rc[2] = sc[2])
CellsAgree == SameAction(Cell, SpecCellNow)

\* offsets at which a term of length 0 has been shifted (a custom lexer may answer with length 0 - a virtual term; the
\* harness' lexer gives that answer once per offset, and learns from the term functor that it was taken)
ZeroDone == {nodes[i].off : i \in {j \in 1..Len(nodes) : nodes[j].k = 0 /\ nodes[j].len = 0}}

(************************* get_current_term *******************************)
\* use_lexer<L>: the custom lexer is asked exactly once per needed term, at the offset after whitespace skipping,
\* with the source point of that offset, and never at the end of the input (observable call of L::match)
LexCall ==
  /\ status = "run" /\ ph = "top" /\ NeedTerm /\ GR(g).lexobs
  /\ LET p  == SkipWs(inp, it, WsSet(opt))
         sp == SpUpd(inp, it, p, line, col)
     IN /\ p < Len(inp)
        /\ it' = p /\ line' = sp[1] /\ col' = sp[2]
        /\ ev' = <<"lexcall", p, sp[1], sp[2], Len(inp) - p>>
  /\ ph' = "lexed"
  /\ UNCHANGED <<red, g, inp, opt, stack, sstack, vals, nodes, endIt, cur, mode, status, msgs>>

GetTerm ==
  /\ status = "run" /\ NeedTerm
  /\ (GR(g).lexobs => (ph = "lexed" \/ SkipWs(inp, it, WsSet(opt)) = Len(inp)))
  /\ LET p   == SkipWs(inp, it, WsSet(opt))
         sp  == SpUpd(inp, it, p, line, col)
     IN /\ line' = sp[1] /\ col' = sp[2] /\ it' = p
        /\ IF p = Len(inp)
           THEN /\ cur' = EofOf(g) /\ endIt' = endIt /\ ph' = "act"      \* current_end_it is NOT moved at end of input:
                                                                       \* after trailing whitespace it # endIt, and <eof> is
                                                                       \* then not recognised again on the next iteration
                /\ ev' = <<"rec", sp[1], sp[2], TName(g, EofOf(g))>>
                /\ UNCHANGED <<status, msgs>>
           ELSE LET lx == LexAt(g, inp, p, ZeroDone) IN
                IF lx[1] = -1
                THEN /\ cur' = -1 /\ endIt' = p /\ ph' = "top" /\ status' = "rej"
                     /\ msgs' = Append(msgs, <<"unexp", sp[1], sp[2], inp[p + 1]>>)
                     /\ ev' = <<"unexp", sp[1], sp[2], inp[p + 1]>>
                ELSE /\ cur' = lx[1] /\ endIt' = p + lx[2] /\ ph' = "act"
                     /\ ev' = <<"rec", sp[1], sp[2], TName(g, lx[1])>>
                     /\ UNCHANGED <<status, msgs>>
  /\ UNCHANGED <<red, g, inp, opt, stack, sstack, vals, nodes, mode>>

(************************* error cell *************************************)
ConsumeFailEof ==          \* input ended while discarding: silent failure
  /\ status = "run" /\ HaveTerm /\ mode = "consume" /\ Cell[1] = "error" /\ cur = EofOf(g)
  /\ status' = "rej" /\ ev' = <<"tau">> /\ ph' = "top"
  /\ UNCHANGED <<red, g, inp, opt, stack, sstack, vals, nodes, it, endIt, cur, line, col, mode, msgs>>

ConsumeDiscard ==
  /\ status = "run" /\ HaveTerm /\ mode = "consume" /\ Cell[1] = "error" /\ cur # EofOf(g)
  /\ ev' = <<"consume", line, col, TName(g, cur)>>
  /\ LET sp == SpUpd(inp, it, endIt, line, col) IN line' = sp[1] /\ col' = sp[2]
  /\ it' = endIt /\ ph' = "top"
  /\ UNCHANGED <<red, g, inp, opt, stack, sstack, vals, nodes, endIt, cur, mode, status, msgs>>

SynErr ==
  /\ status = "run" /\ HaveTerm /\ mode = "normal" /\ Cell[1] = "error"
  /\ ev' = <<"synerr", line, col, TName(g, cur)>>
  /\ msgs' = Append(msgs, <<"synerr", line, col, cur>>)
  /\ ph' = "enter"
  /\ UNCHANGED <<red, g, inp, opt, stack, sstack, vals, nodes, it, endIt, cur, line, col, mode, status>>

EnterRecovery ==
  /\ status = "run" /\ ph = "enter"
  /\ ev' = <<"msg", line, col, "Entering recovery mode">>
  /\ mode' = "recovery" /\ ph' = "top"
  /\ UNCHANGED <<red, g, inp, opt, stack, sstack, vals, nodes, it, endIt, cur, line, col, status, msgs>>

\* documented: pop only while the top state has no action on the error token
RecoverPop ==
  /\ status = "run" /\ HaveTerm /\ mode = "recovery" /\ Cell[1] = "error"
  /\ stack' = SubSeq(stack, 1, Len(stack) - 1) /\ sstack' = SubSeq(sstack, 1, Len(sstack) - 1)
  /\ vals' = IF Len(vals) > 0 THEN SubSeq(vals, 1, Len(vals) - 1) ELSE vals
  /\ IF Len(stack) = 1
     THEN status' = "rej" /\ ev' = <<"msg", line, col, "Could not recover from error">>
     ELSE status' = status /\ ev' = <<"recto", line, col, stack[Len(stack) - 1]>>
  /\ ph' = "top"
  /\ UNCHANGED <<red, g, inp, opt, nodes, it, endIt, cur, line, col, mode, msgs>>

(************************* non-error cell *********************************)
LeaveConsume ==
  /\ status = "run" /\ HaveTerm /\ mode = "consume" /\ Cell[1] # "error"
  /\ ev' = <<"msg", line, col, "Leaving consume mode">>
  /\ mode' = "normal" /\ ph' = "act"
  /\ UNCHANGED <<red, g, inp, opt, stack, sstack, vals, nodes, it, endIt, cur, line, col, status, msgs>>

CanAct == status = "run" /\ HaveTerm /\ mode # "consume"

Shift ==
  /\ CanAct /\ Cell[1] = "shift"
  /\ ev' = <<"shift", line, col, Cell[2], SubSeq(inp, it + 1, endIt)>>
  /\ stack' = Append(stack, Cell[2]) /\ sstack' = Append(sstack, SpecCellNow[2])
  /\ ph' = "tval"
  /\ UNCHANGED <<red, g, inp, opt, vals, nodes, it, endIt, cur, line, col, mode, status, msgs>>

TermValue ==             \* the term's functor receives the lexeme; the value carries current_sp
  /\ status = "run" /\ ph = "tval"
  /\ LET id == Len(nodes) IN
     /\ nodes' = Append(nodes, [k |-> 0, sym |-> cur - TB, ch |-> <<>>, off |-> it, len |-> endIt - it, line |-> line, col |-> col])
     /\ vals' = Append(vals, id)
     /\ ev' = IF GR(g).obsT THEN <<"tval", cur - TB, it, endIt - it, id>> ELSE <<"tau">>
  /\ LET sp == SpUpd(inp, it, endIt, line, col) IN line' = sp[1] /\ col' = sp[2]
  /\ it' = endIt /\ ph' = "top"
  /\ UNCHANGED <<red, g, inp, opt, stack, sstack, endIt, cur, mode, status, msgs>>

ShiftError ==
  /\ CanAct /\ Cell[1] = "shifterr"
  /\ ev' = <<"shift", line, col, Cell[2], ErrTokBytes>>
  /\ stack' = Append(stack, Cell[2]) /\ sstack' = Append(sstack, SpecCellNow[2])
  /\ vals' = Append(vals, -2)
  /\ ph' = "leaverec"
  /\ UNCHANGED <<red, g, inp, opt, nodes, it, endIt, cur, line, col, mode, status, msgs>>

LeaveRecovery ==
  /\ status = "run" /\ ph = "leaverec"
  /\ ev' = <<"msg", line, col, "Leaving recovery mode">>
  /\ mode' = "normal" /\ ph' = "entercons"
  /\ UNCHANGED <<red, g, inp, opt, stack, sstack, vals, nodes, it, endIt, cur, line, col, status, msgs>>

EnterConsume ==
  /\ status = "run" /\ ph = "entercons"
  /\ ev' = <<"msg", line, col, "Entering consume mode">>
  /\ mode' = "consume" /\ ph' = "top"
  /\ UNCHANGED <<red, g, inp, opt, stack, sstack, vals, nodes, it, endIt, cur, line, col, status, msgs>>

RuleOf(r) == GR(g).R[r + 1]      \* r = source rule number (0-based)

Reduce ==
  /\ CanAct /\ Cell[1] = "reduce"
  /\ LET r == Cell[2] n == Len(RuleOf(r).r) IN
     /\ ev' = <<"reduce", line, col, r, GR(g).ruletext[r + 1]>>
     /\ stack' = SubSeq(stack, 1, Len(stack) - n) /\ sstack' = SubSeq(sstack, 1, Len(sstack) - n)
     /\ ph' = "goto" /\ red' = r
  /\ UNCHANGED <<g, inp, opt, vals, nodes, it, endIt, cur, line, col, mode, status, msgs>>

Goto ==
  /\ status = "run" /\ ph = "goto"
  /\ LET r == red
         rc == RCell(g, Top(stack), RuleOf(r).l)
         sc == SCell(g, Top(sstack), RuleOf(r).l)
     IN /\ ev' = <<"goto", line, col, rc[2]>>
        /\ stack' = Append(stack, rc[2]) /\ sstack' = Append(sstack, sc[2])
  /\ ph' = "call"
  /\ UNCHANGED <<red, g, inp, opt, vals, nodes, it, endIt, cur, line, col, mode, status, msgs>>

\* Rules WITHOUT a functor (GR(g).dflt): the left-side value is constructed from the right-side values;
\* no right side -> a default value (no observable call); a single nonterminal -> that value itself, moved.
IsDflt(r) == \E k \in DOMAIN GR(g).dflt : GR(g).dflt[k] = r
IsCtx(r) == \E k \in DOMAIN GR(g).ctxr : GR(g).ctxr[k] = r
\* value-less nonterminals (nterm<no_type>): their rules' functors are called like any other, the result carries no value
NoVal(n) == \E k \in DOMAIN GR(g).noval : GR(g).noval[k] = n
\* terms whose value type is no_type (typed_term(t, create<no_type>{})): their functor is called, a rule functor receives
\* a term_value<no_type> - a source point without a value
NvTerm(t) == \E k \in DOMAIN GR(g).nvterms : GR(g).nvterms[k] = t
Call ==                  \* the rule's functor: children's values in right-side order, exactly once
  /\ status = "run" /\ ph = "call"
  /\ LET r == red n == Len(RuleOf(r).r)
         raw == SubSeq(vals, Len(vals) - n + 1, Len(vals))
         id == Len(nodes)
         lc(a) == IF a >= 0 /\ nodes[a + 1].k = 0 THEN <<nodes[a + 1].line, nodes[a + 1].col>> ELSE <<-1, -1>>
         args == [i \in 1..n |-> IF raw[i] >= 0 /\ nodes[raw[i] + 1].k = 0 /\ NvTerm(nodes[raw[i] + 1].sym) THEN -2 ELSE raw[i]]
         rest == SubSeq(vals, 1, Len(vals) - n)
     IN IF IsDflt(r) /\ n = 0
        THEN nodes' = nodes /\ vals' = Append(rest, -1) /\ ev' = <<"tau">>
        ELSE IF IsDflt(r) /\ n = 1 /\ RuleOf(r).r[1] < TB
        THEN nodes' = nodes /\ vals' = vals /\ ev' = <<"tau">>
        ELSE /\ nodes' = Append(nodes, [k |-> IF IsDflt(r) THEN 2 ELSE 1, sym |-> IF IsDflt(r) THEN -1 ELSE r, ch |-> args, off |-> -1, len |-> -1, line |-> -1, col |-> -1])
             /\ vals' = Append(rest, IF NoVal(RuleOf(r).l) THEN -2 ELSE id)
             /\ ev' = IF IsDflt(r) THEN <<"dcall", id, args, [i \in 1..n |-> lc(raw[i])[1]], [i \in 1..n |-> lc(raw[i])[2]], 0>>
                      \* C13: a functor attached with >>= receives the caller's very object (identity 1), const iff the caller's is
                      ELSE IF IsCtx(r) THEN <<"ccall", r, id, args, [i \in 1..n |-> lc(raw[i])[1]], [i \in 1..n |-> lc(raw[i])[2]], 1, IF opt.cat \in {2, 7} THEN 1 ELSE 0, 0>>
                      \* (last component: number of values handed over as lvalues - every value must arrive movable, i.e. 0)
                      ELSE IF GR(g).obsC THEN <<"call", r, id, args, [i \in 1..n |-> lc(raw[i])[1]], [i \in 1..n |-> lc(raw[i])[2]], 0>>
                      ELSE <<"tau">>
  /\ ph' = "top" /\ red' = -1
  /\ UNCHANGED <<g, inp, opt, stack, sstack, it, endIt, cur, line, col, mode, status, msgs>>

Accept ==
  /\ CanAct /\ Cell[1] = "accept"
  /\ ev' = <<"msg", line, col, "Success">>
  /\ status' = "acc" /\ ph' = "top"
  /\ UNCHANGED <<red, g, inp, opt, stack, sstack, vals, nodes, it, endIt, cur, line, col, mode, msgs>>

Undefined ==             \* R/R cell: the readme declares the behaviour undefined; the model stops
  /\ CanAct /\ Cell[1] = "rr"
  /\ status' = "undef" /\ ev' = <<"tau">> /\ ph' = "top"
  /\ UNCHANGED <<red, g, inp, opt, stack, sstack, vals, nodes, it, endIt, cur, line, col, mode, msgs>>

DOther == LexCall \/ ConsumeFailEof \/ ConsumeDiscard \/ SynErr \/ EnterRecovery \/ RecoverPop \/ LeaveConsume
          \/ Shift \/ TermValue \/ ShiftError \/ LeaveRecovery \/ EnterConsume \/ Reduce \/ Goto \/ Call \/ Accept \/ Undefined
\* (GetTerm additionally says which lines the generated lexer prints, in verbose mode, before its own event)
DNext == /\ \/ (GetTerm /\ lexev' = IF it' < Len(inp) THEN LexLines(g, inp, it', line', col', opt.v) ELSE <<>>)
            \/ (DOther /\ lexev' = <<>>)
         /\ mxd' = IF Len(stack') > mxd THEN Len(stack') ELSE mxd

(************************* invariants of every driver state ***************)
StacksInSync == /\ Len(stack) = Len(sstack)
                /\ ((status = "run" /\ ph \in {"top", "act", "enter", "entercons"}) => Len(vals) = Len(stack) - 1)
PositionsInRange == 0 <= it /\ it <= Len(inp) /\ 0 <= endIt /\ endIt <= Len(inp)
MsgDiscipline == /\ Len(msgs) <= 1 \/ \E i \in 1..Len(msgs) : msgs[i][1] = "synerr"
                 /\ (status = "acc" /\ ~opt.v => TRUE)
\* the driven table and the specification's table prescribe the same action whenever a cell is consulted
TablesAgree == (status = "run" /\ HaveTerm) => CellsAgree

\* result: the tree in vals[1] once accepted
Result == IF status = "acc" THEN vals[1] ELSE -1
=============================================================================
