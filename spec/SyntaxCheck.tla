---------------------------- MODULE SyntaxCheck ----------------------------
(***************************************************************************)
(* C17 / C03 (syntax layer): every text offered as a pattern to the REAL   *)
(* front end (regex_lexer + the library's own LR parser for patterns,      *)
(* driven exactly as analyze_dfa_size drives them) against the documented  *)
(* syntax RegexSyntax!Doc:                                                 *)
(*   SYN accepted-malformed   the library built something for a text that  *)
(*                            contains a must-reject malformation          *)
(*   SYN rejected-documented  the library refused a documented pattern     *)
(*   SYN meaning              accepted, but the builder calls it made      *)
(*                            denote a different expression                *)
(*   SYN read-past-end        the scanner dereferenced beyond the text's   *)
(*                            terminating NUL                              *)
(* One initial state per text.                                             *)
(***************************************************************************)
EXTENDS RegexSyntax, Json, IOUtils

Items == ndJsonDeserialize(IOEnv.VERIF_SYN)
NI == Len(Items)

VARIABLE sx
Init == sx \in 1..NI
Next == UNCHANGED sx
Spec == Init /\ [][Next]_sx

Bytes(ranges) == UNION {(ranges[k][1])..(ranges[k][2]) : k \in DOMAIN ranges}
RECURSIVE AstOfCalls(_, _, _)
AstOfCalls(calls, i, stk) ==
  IF i > Len(calls) THEN stk
  ELSE LET c == calls[i] n == Len(stk) IN
       CASE c.op = "set" -> AstOfCalls(calls, i + 1, Append(stk, [op |-> "set", cs |-> Bytes(c.ranges)]))
         [] c.op \in {"star", "plus", "opt"} -> AstOfCalls(calls, i + 1, Append(SubSeq(stk, 1, n - 1), [op |-> c.op, a |-> stk[n]]))
         [] c.op = "rep" -> AstOfCalls(calls, i + 1, Append(SubSeq(stk, 1, n - 1), [op |-> "rep", a |-> stk[n], n |-> c.n]))
         [] c.op \in {"cat", "alt"} -> AstOfCalls(calls, i + 1, Append(SubSeq(stk, 1, n - 2), [op |-> c.op, a |-> stk[n - 1], b |-> stk[n]]))

Problem(i) ==
  LET it == Items[i]
      d == Doc(it.pat)
  IN IF it.oob > 0 THEN <<"read-past-end">>
     ELSE IF d.st = "reject" THEN (IF it.valid THEN <<"accepted-malformed">> ELSE <<>>)
     ELSE IF d.un THEN <<>>
     ELSE IF ~it.valid THEN <<"rejected-documented">>
     ELSE LET st == AstOfCalls(it.calls, 1, <<>>) IN
          IF Len(st) # 1 THEN <<"meaning", "calls do not form one expression">>
          ELSE IF Norm(st[1]) # Norm(d.ast) THEN <<"meaning">> ELSE <<>>
Class(i) == LET d == Doc(Items[i].pat) IN IF d.st = "reject" THEN "reject" ELSE IF d.un THEN "unspecified" ELSE "documented"

SynReported == Problem(sx) = <<>> \/ PrintT(<<"SYN", ToJson([id |-> Items[sx].id, pat |-> Items[sx].pat, why |-> Problem(sx), valid |-> Items[sx].valid])>>)
ClassReported == PrintT(<<"SYNCLASS", ToJson([id |-> Items[sx].id, c |-> Class(sx), valid |-> Items[sx].valid])>>)
=============================================================================
