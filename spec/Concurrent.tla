----------------------------- MODULE Concurrent -----------------------------
(***************************************************************************)
(* C15: what "a parser object is immutable: parses are independent and     *)
(* thread-safe" means, stated as a specification.                          *)
(*                                                                         *)
(* The object `pobj' (tables + lexer automaton + names + functors) and the *)
(* library's namespace-scope constants `lib' (char names, the pattern      *)
(* parser) are written once, by construction.  A call of parse /           *)
(* context_parse / write_diag_str by thread t is a sequence of steps each  *)
(* of which READS pobj / lib and reads and writes only t's own call frame  *)
(* (stacks, cursor, source point, mode flags: Driver.tla's variables).     *)
(* The frame is abstracted to an accumulator: Step folds one input symbol  *)
(* into it through the shared table.  TLC checks, for all interleavings of *)
(* the threads' steps and all orders of calls,                             *)
(*   Immutable  [][pobj' = pobj /\ lib' = lib]_vars  once constructed      *)
(*   Isolated   every finished call has the result the same call gives     *)
(*              alone (RunAlone), whatever the other threads did           *)
(* The model is deliberately small: its job is to say what must be         *)
(* OBSERVED in the implementation - no write to the object or to library   *)
(* globals during a call (byte image, ThreadSanitizer), and per-thread     *)
(* executions that are each a behaviour of the sequential Driver.tla       *)
(* (trace validation of every thread's trace).                             *)
(***************************************************************************)
EXTENDS Naturals, Sequences, FiniteSets, TLC

CONSTANTS Threads, Syms, K, MaxLen, Calls      \* K abstract frame values; Calls = calls per thread

Inputs == UNION {[1..n -> Syms] : n \in 0..MaxLen}
Tables == [(0..(K - 1)) \X Syms -> 0..(K - 1)]

VARIABLES pobj, lib, built, tpc, tin, tpos, tacc, tdone, tres
vars == <<pobj, lib, built, tpc, tin, tpos, tacc, tdone, tres>>

Init == /\ pobj \in {[x \in (0..(K - 1)) \X Syms |-> (x[1] + 1) % K], [x \in (0..(K - 1)) \X Syms |-> IF x[2] = CHOOSE s \in Syms : TRUE THEN x[1] ELSE (x[1] * 2 + 1) % K]}
        /\ lib = 7 /\ built = TRUE
        /\ tpc = [t \in Threads |-> "idle"] /\ tin = [t \in Threads |-> <<>>] /\ tpos = [t \in Threads |-> 0]
        /\ tacc = [t \in Threads |-> 0] /\ tdone = [t \in Threads |-> 0] /\ tres = [t \in Threads |-> <<>>]

RECURSIVE RunAlone(_, _, _, _)
RunAlone(tb, inp, i, acc) == IF i > Len(inp) THEN acc ELSE RunAlone(tb, inp, i + 1, tb[<<acc, inp[i]>>])

Start(t) == /\ tpc[t] = "idle" /\ tdone[t] < Calls
            /\ \E inp \in Inputs : tin' = [tin EXCEPT ![t] = inp]
            /\ tpc' = [tpc EXCEPT ![t] = "run"] /\ tpos' = [tpos EXCEPT ![t] = 1] /\ tacc' = [tacc EXCEPT ![t] = 0]
            /\ UNCHANGED <<pobj, lib, built, tdone, tres>>
Step(t) == /\ tpc[t] = "run" /\ tpos[t] <= Len(tin[t])
           /\ tacc' = [tacc EXCEPT ![t] = pobj[<<tacc[t], tin[t][tpos[t]]>>]]          \* reads the shared object, writes the own frame
           /\ tpos' = [tpos EXCEPT ![t] = tpos[t] + 1]
           /\ UNCHANGED <<pobj, lib, built, tpc, tin, tdone, tres>>
Return(t) == /\ tpc[t] = "run" /\ tpos[t] > Len(tin[t])
             /\ tres' = [tres EXCEPT ![t] = Append(tres[t], <<tin[t], tacc[t]>>)]
             /\ tpc' = [tpc EXCEPT ![t] = "idle"] /\ tdone' = [tdone EXCEPT ![t] = tdone[t] + 1]
             /\ UNCHANGED <<pobj, lib, built, tin, tpos, tacc>>
Next == \E t \in Threads : Start(t) \/ Step(t) \/ Return(t)
Spec == Init /\ [][Next]_vars

Immutable == [][pobj' = pobj /\ lib' = lib]_vars
Isolated == \A t \in Threads : \A i \in 1..Len(tres[t]) : tres[t][i][2] = RunAlone(pobj, tres[t][i][1], 1, 0)
=============================================================================
