------------------------------ MODULE RxCheck ------------------------------
(***************************************************************************)
(* C03 / C12 (automaton layer): for every pattern of the run,              *)
(*   real   = the automaton the REAL dfa_builder produced (dumped),        *)
(*   model  = the automaton Regex.tla's transcription of the builder       *)
(*            produces when it REPLAYS the recorded call sequence,         *)
(*   ref    = the language of the AST those calls denote (derivatives).    *)
(* TLC explores the triple product over the segment alphabet: exact        *)
(* language comparison, all strings.  Printed:                             *)
(*   RXREF    real accepts <=> ref accepts fails on the witness string     *)
(*   RXMODEL  real accepts <=> model accepts fails (the real code deviates *)
(*            from the modelled design: never attributable to K1)          *)
(*   RXSTATIC returned slices / sizes / state-by-state differences         *)
(***************************************************************************)
EXTENDS Regex, Json, IOUtils

Items == ndJsonDeserialize(IOEnv.VERIF_RX)
NI == Len(Items)
DEAD == 99999

RECURSIVE BuildM(_, _)
BuildM(lo, hi) == IF lo > hi THEN <<>>
                  ELSE IF lo = hi THEN <<TLCEval(Replay(Items[lo].K, Items[lo].calls, 1, <<>>, TRUE))>>
                  ELSE LET m == (lo + hi) \div 2 IN BuildM(lo, m) \o BuildM(m + 1, hi)
Mdl == IF PrintT("PRECOMPUTE") THEN BuildM(1, NI) ELSE <<>>
Asts == TLCEval([i \in 1..NI |-> AstOf(Items[i].calls, 1, <<>>)])
ModelSm(i) == MarkEnds(Mdl[i].sm, Items[i].slice[1], Items[i].slice[1] + Items[i].slice[2] - 1, 0)
Models == TLCEval([i \in 1..NI |-> ModelSm(i)])

VARIABLES px, qr, qm, ds, wit, gk      \* gk: 0 in the exploration; the index of the given string in GivenSpec
vars == <<px, qr, qm, ds, wit, gk>>
vw == <<px, qr, qm, ds>>

Init == \E i \in 1..NI : px = i /\ qr = 0 /\ qm = 0 /\ ds = {Asts[i][1]} /\ wit = <<>> /\ gk = 0
StepReal(i, q, c) == IF q = DEAD THEN DEAD ELSE LET x == Items[i].dfa[q + 1].tr[c] IN IF x = NONE THEN DEAD ELSE x
StepModel(i, q, c) == IF q = DEAD THEN DEAD ELSE LET x == Models[i][q + 1].tr[c] IN IF x = NONE THEN DEAD ELSE x
Next == \E c \in 1..Items[px].K :
          /\ qr' = StepReal(px, qr, c) /\ qm' = StepModel(px, qm, c) /\ ds' = PDSet(c, ds)
          /\ wit' = Append(wit, c) /\ UNCHANGED <<px, gk>>
          /\ ~(qr' = DEAD /\ qm' = DEAD /\ ds' = {})
Spec == Init /\ [][Next]_vars

\* GIVEN strings (Items[i].giv: strings over the segment alphabet): one deterministic walk per string through the three
\* machines; the outcome of each is printed (RXGIVEN) - the expected verdict of regex::expr<P>::match for that very string
InitG == \E i \in 1..NI : \E k \in 1..Len(Items[i].giv) :
           px = i /\ gk = k /\ qr = 0 /\ qm = 0 /\ ds = {Asts[i][1]} /\ wit = <<>>
NextG == /\ gk > 0 /\ Len(wit) < Len(Items[px].giv[gk])
         /\ LET c == Items[px].giv[gk][Len(wit) + 1] IN
            /\ qr' = StepReal(px, qr, c) /\ qm' = StepModel(px, qm, c) /\ ds' = PDSet(c, ds)
            /\ wit' = Append(wit, c)
         /\ UNCHANGED <<px, gk>>
GivenSpec == InitG /\ [][NextG]_vars

RealAcc == qr # DEAD /\ Items[px].dfa[qr + 1].rec # <<>>
ModelAcc == qm # DEAD /\ Models[px][qm + 1].rec # <<>>
RefAcc == AnyNul(ds)
RefReported == (RealAcc <=> RefAcc) \/ PrintT(<<"RXREF", ToJson([id |-> Items[px].id, w |-> wit, real |-> RealAcc, ref |-> RefAcc])>>)
ModelReported == (RealAcc <=> ModelAcc) \/ PrintT(<<"RXMODEL", ToJson([id |-> Items[px].id, w |-> wit, real |-> RealAcc, model |-> ModelAcc])>>)

GivenReported == (gk > 0 /\ Len(wit) = Len(Items[px].giv[gk])) =>
                   PrintT(<<"RXGIVEN", ToJson([id |-> Items[px].id, k |-> gk, real |-> RealAcc, model |-> ModelAcc, ref |-> RefAcc])>>)

StateSame(i, q) == LET r == Items[i].dfa[q] m == Models[i][q] IN
                   /\ r.en = m.en /\ r.un = m.un /\ r.rec = m.rec /\ r.tr = [s \in 1..Items[i].K |-> m.tr[s]]
StaticProblems(i) ==
  IF ~Mdl[i].ok THEN <<"returned-slice">>
  ELSE IF Len(Asts[i]) # 1 THEN <<"call-sequence-not-a-tree", Len(Asts[i])>>
  ELSE IF Items[i].size_used # Len(Models[i]) THEN <<"size-used", Items[i].size_used, Len(Models[i])>>
  ELSE IF Items[i].size_pred # SizeOf(Asts[i][1]) THEN <<"size-predicted", Items[i].size_pred, SizeOf(Asts[i][1])>>
  ELSE IF Items[i].size_pred < Items[i].size_used THEN <<"capacity", Items[i].size_pred, Items[i].size_used>>
  \* the library's own entry point analyze_dfa_size (what regex::expr and regex_term reserve); -2 = not driven
  ELSE IF Items[i].size_api = -1 THEN <<"entry-point-rejects", Items[i].size_used>>
  ELSE IF Items[i].size_api # -2 /\ Items[i].size_api < Items[i].size_used THEN <<"capacity-entry-point", Items[i].size_api, Items[i].size_used>>
  ELSE LET d == {q \in 1..Len(Models[i]) : ~StateSame(i, q)} IN
       IF d = {} THEN <<>> ELSE <<"state", (CHOOSE q \in d : TRUE) - 1>>
StaticReported == wit # <<>> \/ StaticProblems(px) = <<>> \/ PrintT(<<"RXSTATIC", ToJson([id |-> Items[px].id, why |-> StaticProblems(px)])>>)
=============================================================================
