---------------------------- MODULE Containers ----------------------------
(***************************************************************************)
(* The fixed-capacity containers of ctpg::stdex the tables, the lexer and  *)
(* the cstring_buffer parse stacks are made of: cvector<T,N>, cqueue<T,N>, *)
(* cbitset<N>.  Sequential objects: one action per public member call,     *)
(* modelled as the code computes (ring buffer position of the queue, the   *)
(* padding bits of the last bitset word), not as an idealised container.   *)
(*                                                                         *)
(* Deliberate deviations of the code from the standard containers, kept as *)
(* they are (named here so that a rejected replay is read correctly):      *)
(*   - cvector::erase(first, last) clamps last to end() and returns end()  *)
(*     (not the element after the erased range); first >= last is a no-op  *)
(*   - cbitset::flip() / set() touch the padding bits of the last word and *)
(*     operator== compares whole words: after flip() two bitsets with the  *)
(*     same N bits may compare unequal                                     *)
(*   - cqueue::push on a full queue / pop, top on an empty one throw       *)
(*   - calls whose precondition the code does not check (push_back on a    *)
(*     full cvector, pop_back / back on an empty one, erase with first     *)
(*     outside [begin, end]) are undefined in the code and NOT actions     *)
(*     here: the library must never make them (C06 / C12 observe that      *)
(*     through the CTPG_VERIF bounds hook)                                 *)
(*                                                                         *)
(* TLC enumerates the whole state graph for small constants; every         *)
(* transition is printed (EDGE lines, from an ACTION_CONSTRAINT); the      *)
(* orchestrator turns the graph into call sequences that cover every       *)
(* transition (spanning-tree path to the source state, then the call) and  *)
(* replays them into the REAL objects, comparing the projected state and   *)
(* the call's result after every step (harness/containers.cpp).            *)
(***************************************************************************)
EXTENDS Naturals, Integers, Sequences, SequencesExt, FiniteSets, TLC, Json

CONSTANTS CAP,      \* capacity N of the cvector and the cqueue
          VALS,     \* element values
          BN,       \* number of bits of the cbitset (70: two words, 58 padding bits)
          BIDX,     \* bit indexes the actions use (word boundaries)
          BOUT      \* out-of-range indexes (>= BN): every indexed member throws

VARIABLES which,    \* the object this behaviour drives: "vec" | "queue" | "bits"
          vec,      \* cvector: sequence of values
          qd, qs,   \* cqueue: contents, ring position of the front element (0..CAP-1)
          ba, bb,   \* two cbitsets: sets of bit positions of the WORD universe 0..W-1
          op        \* ghost: the call just made and its observable result
vars == <<which, vec, qd, qs, ba, bb, op>>
vw == <<which, vec, qd, qs, ba, bb>>

W == ((BN + 63) \div 64) * 64
Univ == 0..(W - 1)
\* the positions the model distinguishes: the indexed ones, and "all the rest" moving together
Rest == Univ \ BIDX
Pad == {i \in Univ : i >= BN}

Init == /\ which \in {"vec", "queue", "bits"}
        /\ vec = <<>> /\ qd = <<>> /\ qs = 0 /\ ba = {} /\ bb = {}
        /\ op = <<"init">>

---------------------------------------------------------------------------
\* cvector<T, CAP>
VPush(v) == /\ Len(vec) < CAP /\ vec' = Append(vec, v) /\ op' = <<"vpush", v>>
VEmplace(v) == /\ Len(vec) < CAP /\ vec' = Append(vec, v) /\ op' = <<"vemplace", v>>
VPop == /\ Len(vec) > 0 /\ vec' = SubSeq(vec, 1, Len(vec) - 1) /\ op' = <<"vpop">>
VClear == /\ vec' = <<>> /\ op' = <<"vclear">>
VSet(i, v) == /\ i < Len(vec) /\ vec' = [vec EXCEPT ![i + 1] = v] /\ op' = <<"vset", i, v>>        \* operator[] as lvalue
\* erase(begin() + i, begin() + j): i within [0, size]; j anywhere up to CAP (clamped to end())
VErase(i, j) ==
  /\ i <= Len(vec)
  /\ LET to == IF j > Len(vec) THEN Len(vec) ELSE j IN
     vec' = IF i < j THEN SubSeq(vec, 1, i) \o SubSeq(vec, to + 1, Len(vec)) ELSE vec
  /\ op' = <<"verase", i, j, Len(vec')>>            \* the returned iterator is end(): its offset is the new size
\* the way reduce() pops k symbols: erase(end() - k, end())
VEraseTail(k) == /\ k <= Len(vec) /\ vec' = SubSeq(vec, 1, Len(vec) - k) /\ op' = <<"verasetail", k, Len(vec')>>
Rep(v, n) == LET RECURSIVE rep(_)
                 rep(k) == IF k = 0 THEN <<>> ELSE Append(rep(k - 1), v)
             IN rep(n)
VFill(v, n) == /\ vec' = Rep(v, n) /\ op' = <<"vfill", v, n>>       \* cvector(arg, count) assigned over the object
VecNext == \/ \E v \in VALS : VPush(v) \/ VEmplace(v)
           \/ VPop \/ VClear
           \/ \E i \in 0..(CAP - 1), v \in VALS : VSet(i, v)
           \/ \E i \in 0..CAP, j \in 0..CAP : VErase(i, j)
           \/ \E k \in 0..CAP : VEraseTail(k)
           \/ \E v \in VALS, n \in 0..CAP : VFill(v, n)

\* cqueue<T, CAP>: ring buffer
QPush(v) == IF Len(qd) >= CAP THEN /\ UNCHANGED <<qd, qs>> /\ op' = <<"qpush", v, "throws">>
            ELSE /\ qd' = Append(qd, v) /\ qs' = qs /\ op' = <<"qpush", v, "ok">>
QPop == IF qd = <<>> THEN /\ UNCHANGED <<qd, qs>> /\ op' = <<"qpop", "throws">>
        ELSE /\ qd' = Tail(qd) /\ qs' = (qs + 1) % CAP /\ op' = <<"qpop", "ok">>
QTop == /\ UNCHANGED <<qd, qs>>
        /\ op' = IF qd = <<>> THEN <<"qtop", "throws">> ELSE <<"qtop", "ok", Head(qd)>>
QueueNext == (\E v \in VALS : QPush(v)) \/ QPop \/ QTop

\* cbitset<BN>
Chk(i) == i < BN
BSet(i) == IF Chk(i) THEN /\ ba' = ba \cup {i} /\ op' = <<"bset", i, "ok">> ELSE /\ ba' = ba /\ op' = <<"bset", i, "throws">>
BSetTo(i, b) == IF Chk(i) THEN /\ ba' = (IF b THEN ba \cup {i} ELSE ba \ {i}) /\ op' = <<"bsetto", i, b, "ok">>
                ELSE /\ ba' = ba /\ op' = <<"bsetto", i, b, "throws">>
BReset(i) == IF Chk(i) THEN /\ ba' = ba \ {i} /\ op' = <<"breset", i, "ok">> ELSE /\ ba' = ba /\ op' = <<"breset", i, "throws">>
BFlip(i) == IF Chk(i) THEN /\ ba' = (IF i \in ba THEN ba \ {i} ELSE ba \cup {i}) /\ op' = <<"bflip", i, "ok">>
            ELSE /\ ba' = ba /\ op' = <<"bflip", i, "throws">>
BTest(i) == /\ ba' = ba /\ op' = IF Chk(i) THEN <<"btest", i, "ok", i \in ba>> ELSE <<"btest", i, "throws">>
BFlipAll == /\ ba' = Univ \ ba /\ op' = <<"bflipall">>             \* whole words: padding bits included
BSetAll == /\ ba' = Univ /\ op' = <<"bsetall">>
BResetAll == /\ ba' = {} /\ op' = <<"bresetall">>
BAdd == /\ ba' = ba \cup bb /\ op' = <<"badd">>                     \* a.add(b)
BEq == /\ ba' = ba /\ op' = <<"beq", ba = bb>>                      \* whole-word comparison
BSwap == /\ ba' = bb /\ bb' = ba /\ op' = <<"bswap">>               \* harness: std::swap(a, b), so that b gets driven too
BitsNext == \/ /\ \/ \E i \in BIDX \cup BOUT : BSet(i) \/ BReset(i) \/ BFlip(i) \/ BTest(i) \/ \E b \in BOOLEAN : BSetTo(i, b)
                  \/ BFlipAll \/ BSetAll \/ BResetAll \/ BAdd \/ BEq
               /\ bb' = bb
            \/ BSwap

Next == /\ which' = which
        /\ \/ which = "vec" /\ VecNext /\ UNCHANGED <<qd, qs, ba, bb>>
           \/ which = "queue" /\ QueueNext /\ UNCHANGED <<vec, ba, bb>>
           \/ which = "bits" /\ BitsNext /\ UNCHANGED <<vec, qd, qs>>
Spec == Init /\ [][Next]_vars

---------------------------------------------------------------------------
\* design-level invariants
TypeOK == /\ vec \in Seq(VALS) /\ Len(vec) <= CAP
          /\ qd \in Seq(VALS) /\ Len(qd) <= CAP /\ qs \in 0..(CAP - 1)
          /\ ba \subseteq Univ /\ bb \subseteq Univ
\* everything outside the indexed positions moves together (so the harness observes it on witnesses: test() of the
\* other bits below BN, and the padding bits through operator== with a bitset brought to the same abstract state)
RestUniform == \A s \in {ba, bb} : Rest \subseteq s \/ Rest \cap s = {}

\* the abstract state as the harness projects it
BProj(s) == [on |-> SetToSortSeq(s \cap BIDX, LAMBDA x, y : x < y), rest |-> Rest \subseteq s]
Proj(v, d, s, a, b) == [vec |-> v, qd |-> d, qs |-> s, ba |-> BProj(a), bb |-> BProj(b)]
EdgeLogged == PrintT(<<"EDGE", ToJson([w |-> which, from |-> Proj(vec, qd, qs, ba, bb), op |-> op', to |-> Proj(vec', qd', qs', ba', bb')])>>)
=============================================================================
