------------------------------ MODULE Tables ------------------------------
(***************************************************************************)
(* Data plumbing: the grammars of one run (JSON, from the orchestrator),   *)
(* their analysis by LR1.tla (cached once per run), and - when present -   *)
(* the artefacts dumped from the real parser objects.                      *)
(*   VERIF_GRAMMARS  ndjson, one grammar per line (tools/gram.py)          *)
(*   VERIF_DUMPS     ndjson, one dump per line, same order (harness/rt.hpp)*)
(***************************************************************************)
EXTENDS LR1, Regex, RegexSyntax, Json, IOUtils

Gs == ndJsonDeserialize(IOEnv.VERIF_GRAMMARS)
NG == Len(Gs)

RECURSIVE BuildA(_, _)
BuildA(lo, hi) == IF lo > hi THEN <<>>
                  ELSE IF lo = hi THEN <<TLCEval(Analyze(Gs[lo]))>>
                  ELSE LET m == (lo + hi) \div 2 IN BuildA(lo, m) \o BuildA(m + 1, hi)
\* once-only marker: the runner fails the run (infrastructure error) if "PRECOMPUTE" is printed more than once
A == IF PrintT("PRECOMPUTE") THEN BuildA(1, NG) ELSE <<>>

\* names of the 256 byte values as the library prints them (utils::char_names): the byte itself if 33..126, else \xHH
CharNames == JsonDeserialize("cnames.json")
HasDumps == "VERIF_DUMPS" \in DOMAIN IOEnv
Ds == IF HasDumps THEN ndJsonDeserialize(IOEnv.VERIF_DUMPS) ELSE <<>>

SymIdx(gg, X) == IF X >= TB THEN Gs[gg].nnt + 1 + (X - TB) + 1 ELSE X + 1
SpecCell(gg, s, X) == A[gg].tbl[s + 1][X]
DumpCell(gg, s, X) == Ds[gg].table[s + 1][SymIdx(gg, X)]

GRof(gg) == [nnt |-> Gs[gg].nnt, nt |-> Gs[gg].nt, R |-> A[gg].R, tnames |-> Gs[gg].tnames,
             ruletext |-> Gs[gg].ruletext, obsT |-> Gs[gg].obsT, obsC |-> Gs[gg].obsC, dflt |-> Gs[gg].dflt, ctxr |-> Gs[gg].ctxr, noval |-> Gs[gg].noval, nvterms |-> Gs[gg].nvterms, lexobs |-> Gs[gg].lexobs]

\* reference lexer for grammars whose terms are single characters (host grammars): first listed wins
RECURSIVE FirstCharTerm(_, _, _)
FirstCharTerm(tb, b, j) == IF j > Len(tb) THEN -1 ELSE IF tb[j] = b THEN TB + j - 1 ELSE FirstCharTerm(tb, b, j + 1)
LexChars(gg, bytes, p) == LET t == FirstCharTerm(Gs[gg].tbytes, bytes[p + 1], 1) IN IF t = -1 THEN <<-1, 0>> ELSE <<t, 1>>

(***************************************************************************)
(* Reference lexer for arbitrary term sets (C04): longest match over the   *)
(* per-term reference languages, first listed term wins ties.  Terms come  *)
(* as [kind, data]: "C"/"S" literal bytes, "R" a pattern whose meaning is  *)
(* RegexSyntax!Doc (the documented syntax), evaluated by derivatives over  *)
(* byte values.  Nothing of the generated automaton is used.               *)
(***************************************************************************)
RECURSIVE BinList(_, _, _)
RECURSIVE Bin(_)
BinList(kind, xs, k) == IF k = Len(xs) THEN Bin(xs[k]) ELSE [op |-> kind, a |-> Bin(xs[k]), b |-> BinList(kind, xs, k + 1)]
Bin(a) == CASE a.op \in {"set", "eps"} -> a
            [] a.op \in {"star", "plus", "opt"} -> [op |-> a.op, a |-> Bin(a.a)]
            [] a.op = "rep" -> [op |-> "rep", a |-> Bin(a.a), n |-> a.n]
            [] a.op = "catl" -> BinList("cat", a.xs, 1)
            [] a.op = "altl" -> BinList("alt", a.xs, 1)
RECURSIVE LitChain(_, _)
LitChain(bs, k) == IF k = Len(bs) THEN Lit(bs[k]) ELSE [op |-> "cat", a |-> Lit(bs[k]), b |-> LitChain(bs, k + 1)]
LexTermAst(t) == IF t.kind = "R" THEN Bin(Doc(t.data).ast) ELSE LitChain(t.data, 1)
RECURSIVE BuildLexAsts(_, _)
BuildLexAsts(lo, hi) ==
  IF lo > hi THEN <<>>
  ELSE IF lo = hi THEN << IF Gs[lo].lex = "ref" THEN TLCEval([t \in 1..Len(Gs[lo].lexterms) |-> LexTermAst(Gs[lo].lexterms[t])]) ELSE <<>> >>
  ELSE LET m == (lo + hi) \div 2 IN BuildLexAsts(lo, m) \o BuildLexAsts(m + 1, hi)
LexAsts == BuildLexAsts(1, NG)

\* Scanning is done in chunks (inner recursion of at most CHUNK steps, outer recursion over chunks) so that the
\* recursion depth stays ~ sqrt-like for lexemes of tens of thousands of bytes (deep Java stacks make every GC slow).
CHUNK == 256
RECURSIVE LexScan(_, _, _, _, _, _)
LexScan(dsets, bytes, i, p, best, fuel) ==      \* dsets[t] = derivative set of term t after bytes[p+1..i]
  LET ok == {t \in DOMAIN dsets : AnyNul(dsets[t])}
      b2 == IF ok = {} THEN best ELSE <<TB + (CHOOSE t \in ok : \A u \in ok : t <= u) - 1, i - p>>
  IN IF i = Len(bytes) \/ \A t \in DOMAIN dsets : dsets[t] = {} THEN [done |-> TRUE, best |-> b2, ds |-> dsets, i |-> i]
     ELSE IF fuel = 0 THEN [done |-> FALSE, best |-> b2, ds |-> dsets, i |-> i]
     ELSE LexScan(TLCEval([t \in DOMAIN dsets |-> PDSet(bytes[i + 1], dsets[t])]), bytes, i + 1, p, b2, fuel - 1)
RECURSIVE LexScanOuter(_, _, _, _, _)
LexScanOuter(dsets, bytes, i, p, best) ==
  LET r == LexScan(dsets, bytes, i, p, best, CHUNK) IN
  IF r.done THEN r.best ELSE LexScanOuter(r.ds, bytes, r.i, p, r.best)
LexRefAt(gg, bytes, p) == LexScanOuter(TLCEval([t \in DOMAIN LexAsts[gg] |-> {LexAsts[gg][t]}]), bytes, p, p, <<-1, 0>>)
(***************************************************************************)
(* C16 / C04 (run layer): the lines dfa_match prints in verbose mode while  *)
(* it runs the DUMPED lexer automaton - "Recognized <idx>" whenever the     *)
(* current state recognises a term, then per consumed byte "Current char"  *)
(* and "New state" - as events; source point advanced per byte.            *)
(***************************************************************************)
DfaTo(row, b) == LET m == {k \in DOMAIN row.tr : row.tr[k][1] <= b /\ b <= row.tr[k][2]} IN
                 IF m = {} THEN -1 ELSE row.tr[CHOOSE k \in m : TRUE][3]
RECURSIVE DfaLines(_, _, _, _, _, _, _, _)
DfaLines(dfa, cn, bytes, i, q, ln, cl, acc) ==
  LET row == dfa[q + 1]
      a1 == IF row.rec # <<>> THEN Append(acc, <<"lexrec", ln, cl, row.rec[1]>>) ELSE acc
  IN IF i = Len(bytes) THEN a1
     ELSE LET b == bytes[i + 1] to == DfaTo(row, b) IN
          IF to = -1 THEN a1
          ELSE DfaLines(dfa, cn, bytes, i + 1, to, IF b = 10 THEN ln + 1 ELSE ln, IF b = 10 THEN 1 ELSE cl + 1,
                        Append(Append(a1, <<"lexchar", ln, cl, cn[b + 1]>>), <<"lexstate", ln, cl, to>>))
LexLinesDump(gg, bytes, p, ln, cl, vb) ==
  IF ~vb \/ ~HasDumps \/ Gs[gg].lex \notin {"chars", "ref"} \/ Len(Ds[gg].lexer) = 0 THEN <<>>
  ELSE DfaLines(Ds[gg].lexer, CharNames, bytes, p, 0, ln, cl, <<>>)

\* C18: the harness' custom lexer answers (index, length) as dictated by the byte it is asked at (harness/rt.hpp
\* byte_lexer): arbitrary in-range answers, chosen by the input itself
\* bytes 0x80..0x8F: a VIRTUAL term (index b - 0x80) of length 0, answered until it has been shifted at that offset
\* (zd: offsets where a zero-length term was shifted); afterwards the same byte is that term with length 1
LexByte(gg, bytes, p, zd) ==
  LET b == bytes[p + 1]
      idx == (b - 64) \div 4
      ln == ((b - 64) % 4) + 1
  IN IF b >= 128 /\ b < 144
     THEN (IF b - 128 >= Gs[gg].nt THEN <<-1, 0>> ELSE IF p \in zd THEN <<TB + (b - 128), 1>> ELSE <<TB + (b - 128), 0>>)
     \* bytes 0x90..0x9F: a BLOB - term (b - 0x90) extending to the end of the input (lexemes of any length, e.g. 65535)
     ELSE IF b >= 144 /\ b < 160
     THEN (IF b - 144 >= Gs[gg].nt THEN <<-1, 0>> ELSE <<TB + (b - 144), Len(bytes) - p>>)
     ELSE IF b < 64 \/ b > 127 \/ idx >= Gs[gg].nt \/ ln > Len(bytes) - p THEN <<-1, 0>> ELSE <<TB + idx, ln>>
LexDispatch(gg, bytes, p, zd) == IF Gs[gg].lex = "chars" THEN LexChars(gg, bytes, p)
                                 ELSE IF Gs[gg].lex = "byte" THEN LexByte(gg, bytes, p, zd) ELSE LexRefAt(gg, bytes, p)
=============================================================================
