------------------------------ MODULE Tables ------------------------------
(***************************************************************************)
(* Data plumbing: the grammars of one run (JSON, from the orchestrator),   *)
(* their analysis by LR1.tla (cached once per run), and - when present -   *)
(* the artefacts dumped from the real parser objects.                      *)
(*   VERIF_GRAMMARS  ndjson, one grammar per line (tools/gram.py)          *)
(*   VERIF_DUMPS     ndjson, one dump per line, same order (harness/rt.hpp)*)
(***************************************************************************)
EXTENDS LR1, Json, IOUtils

Gs == ndJsonDeserialize(IOEnv.VERIF_GRAMMARS)
NG == Len(Gs)

RECURSIVE BuildA(_, _)
BuildA(lo, hi) == IF lo > hi THEN <<>>
                  ELSE IF lo = hi THEN <<TLCEval(Analyze(Gs[lo]))>>
                  ELSE LET m == (lo + hi) \div 2 IN BuildA(lo, m) \o BuildA(m + 1, hi)
\* once-only marker: the runner fails the run (infrastructure error) if "PRECOMPUTE" is printed more than once
A == IF PrintT("PRECOMPUTE") THEN BuildA(1, NG) ELSE <<>>

HasDumps == "VERIF_DUMPS" \in DOMAIN IOEnv
Ds == IF HasDumps THEN ndJsonDeserialize(IOEnv.VERIF_DUMPS) ELSE <<>>

SymIdx(gg, X) == IF X >= TB THEN Gs[gg].nnt + 1 + (X - TB) + 1 ELSE X + 1
SpecCell(gg, s, X) == A[gg].tbl[s + 1][X]
DumpCell(gg, s, X) == Ds[gg].table[s + 1][SymIdx(gg, X)]

GRof(gg) == [nnt |-> Gs[gg].nnt, nt |-> Gs[gg].nt, R |-> A[gg].R, tnames |-> Gs[gg].tnames,
             ruletext |-> Gs[gg].ruletext, obsT |-> Gs[gg].obsT, obsC |-> Gs[gg].obsC]

\* reference lexer for grammars whose terms are single characters (host grammars): first listed wins
RECURSIVE FirstCharTerm(_, _, _)
FirstCharTerm(tb, b, j) == IF j > Len(tb) THEN -1 ELSE IF tb[j] = b THEN TB + j - 1 ELSE FirstCharTerm(tb, b, j + 1)
LexChars(gg, bytes, p) == LET t == FirstCharTerm(Gs[gg].tbytes, bytes[p + 1], 1) IN IF t = -1 THEN <<-1, 0>> ELSE <<t, 1>>
=============================================================================
