SPECIFICATION Spec
INVARIANTS
  TemplateMatchesDoc
  CaseReported
  ForwardingKeepsLvaluesIntact
CHECK_DEADLOCK FALSE
