SPECIFICATION Spec
INVARIANTS
  TemplateMatchesDoc
  CaseReported
CHECK_DEADLOCK FALSE
