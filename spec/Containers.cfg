SPECIFICATION Spec
CONSTANTS
  CAP = 3
  VALS = {1, 2}
  BN = 70
  BIDX = {0, 63, 64, 69}
  BOUT = {70, 128}
INVARIANTS
  TypeOK
  RestUniform
ACTION_CONSTRAINT EdgeLogged
VIEW vw
CHECK_DEADLOCK FALSE
