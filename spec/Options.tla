------------------------------ MODULE Options ------------------------------
(***************************************************************************)
(* The option objects a caller hands to parse / context_parse / match      *)
(* (readme "Parse options"): parse_options with the three switches         *)
(* verbose (default off), skip_whitespace (default on), skip_newline       *)
(* (default on) and match_options with verbose (default off).  Each switch *)
(* has a setter  set_X(bool val = true)  that changes THAT switch of THAT  *)
(* object only and returns the object itself, so setters chain:            *)
(*   parse_options{}.set_verbose().set_skip_whitespace(false)              *)
(*                                                                         *)
(* TLC enumerates every chain of at most MaxOps setter calls (with an      *)
(* explicit argument, or with the default argument) and prints it with the *)
(* switches expected after every step (OPTCASE lines); the orchestrator    *)
(* turns the cases into one translation unit in which each chain is        *)
(* executed on the REAL objects, in constant evaluation (static_assert)    *)
(* and at run time, and in which a parse with the resulting object must    *)
(* behave as the switches say (whitespace and newlines skipped or not,     *)
(* verbose lines present or not).                                          *)
(***************************************************************************)
EXTENDS Naturals, Sequences, TLC, Json

CONSTANTS MaxOps

Switches == {"verbose", "ws", "nl"}
\* args: "t" = set_X(true), "f" = set_X(false), "d" = set_X() - the default argument, documented as true
Args == {"t", "f", "d"}
Val(a) == a # "f"

VARIABLES okind,     \* "parse" (parse_options) or "match" (match_options: only the verbose switch exists)
          osw,       \* the switches of the object
          ochain     \* the calls made, each with the switches it left behind
vars == <<okind, osw, ochain>>

Defaults == [verbose |-> FALSE, ws |-> TRUE, nl |-> TRUE]
Init == okind \in {"parse", "match"} /\ osw = Defaults /\ ochain = <<>>

Set(s, a) ==
  /\ Len(ochain) < MaxOps
  /\ okind = "match" => s = "verbose"
  /\ osw' = [osw EXCEPT ![s] = Val(a)]
  /\ ochain' = Append(ochain, [s |-> s, a |-> a, after |-> [osw EXCEPT ![s] = Val(a)]])
  /\ UNCHANGED okind
Next == \E s \in Switches, a \in Args : Set(s, a)
Spec == Init /\ [][Next]_vars

TypeOK == osw \in [Switches -> BOOLEAN]
\* a setter touches its own switch only
Local == \A i \in 1..Len(ochain) :
           LET before == IF i = 1 THEN Defaults ELSE ochain[i - 1].after IN
           \A s \in Switches \ {ochain[i].s} : ochain[i].after[s] = before[s]
\* the last call on a switch decides it; a switch never set keeps its default
LastWins == \A s \in Switches :
              LET idx == {i \in 1..Len(ochain) : ochain[i].s = s} IN
              osw[s] = IF idx = {} THEN Defaults[s] ELSE Val(ochain[CHOOSE i \in idx : \A j \in idx : j <= i].a)
\* what the switches mean for a call: blanks between terms are skipped iff skip_whitespace; newlines iff both skip
\* switches; the step-by-step lines are written iff verbose (Driver.tla gives the same meaning to ws / nl / verbose)
Effect == [blank |-> osw.ws, newline |-> osw.ws /\ osw.nl, lines |-> osw.verbose]
CaseReported == PrintT(<<"OPTCASE", ToJson([kind |-> okind, chain |-> ochain, sw |-> osw, eff |-> Effect])>>)
=============================================================================
