----------------------------- MODULE DiagCheck -----------------------------
(***************************************************************************)
(* C11: what write_diag_str PRINTS (parsed line by line by                 *)
(* tools/diagparse.py) against (a) the table dumped from the same parser   *)
(* object - the one parse() executes, bound to executions by the trace     *)
(* validation - and (b) the specification's canonical LR(1) collection:    *)
(*   - the RULES section lists the rules under their source numbers        *)
(*   - every state lists exactly the items of the real state, and those    *)
(*     are the closure of the state's kernel (the spec state with the same *)
(*     item set)                                                           *)
(*   - goto / shift / reduce / success lines = the real cells              *)
(*   - an S/R (R/R) CONFLICT line for (state, term) iff the grammar really *)
(*     has that LR(1) conflict there; the rule named is the one involved;  *)
(*     the side named is the side the real table executes and the side the *)
(*     documented precedence rules prescribe                               *)
(* One initial state per grammar; problems are printed as DIAG lines.      *)
(***************************************************************************)
EXTENDS Tables

Dg == ndJsonDeserialize(IOEnv.VERIF_DIAGS)

VARIABLE gx
Init == gx \in 1..NG
Next == UNCHANGED gx
Spec == Init /\ [][Next]_gx

\* an item as the diagnostic prints it: <<lhs, symbols before the dot, symbols after the dot, lookahead>>
Render(gg, i) == LET r == A[gg].R[i[1]] IN <<r.l, SubSeq(r.r, 1, i[2]), SubSeq(r.r, i[2] + 1, Len(r.r)), i[3]>>
DiagItems(gg, s) == {<<x[1], x[2], x[3], x[4]>> : x \in Range(Dg[gg].states[s].items)}
DumpItemsR(gg, s) == {Render(gg, <<x[1] + 1, x[2], x[3]>>) : x \in Range(Ds[gg].states[s])}
SpecStateOf(gg, s) == LET m == {q \in 1..Len(A[gg].states) : {Render(gg, i) : i \in A[gg].states[q]} = DiagItems(gg, s)}
                      IN IF m = {} THEN 0 ELSE CHOOSE q \in m : TRUE

ActOn(gg, s, X) == LET m == {a \in Range(Dg[gg].states[s].actions) : a[1] = X} IN
                   IF m = {} THEN <<X, "none", -1>> ELSE CHOOSE a \in m : TRUE
NActs(gg, s, X) == Cardinality({k \in 1..Len(Dg[gg].states[s].actions) : Dg[gg].states[s].actions[k][1] = X})

\* what the diagnostic must say for a real cell <<kind, arg, sr>>
ExpectedLine(rc) ==
  CASE rc[1] = "error" -> <<"none", -1>>
    [] rc[1] = "accept" -> IF rc[4] = 1 THEN <<"rr", -1>> ELSE <<"accept", -1>>     \* accept/reduce conflict: accepting is executed
    [] rc[1] = "rr" -> <<"rr", -1>>
    [] rc[1] = "reduce" -> IF rc[3] = 1 THEN <<"sr_reduce", rc[2]>> ELSE <<"reduce", rc[2]>>
    [] rc[1] \in {"shift", "shifterr"} -> IF rc[3] = 1 THEN <<"sr_shift", -2>> ELSE <<"shift", rc[2]>>

Problems(gg) ==
  LET R == A[gg].R
      nS == Len(Dg[gg].states)
      syms == Range(A[gg].so)
      rulesBad == {n \in 1..Len(Dg[gg].rules) :
                     LET x == Dg[gg].rules[n] IN
                     ~(x[1] + 1 \in 1..Len(R) /\ x[2] = R[x[1] + 1].l /\ x[3] = R[x[1] + 1].r)}
      numbersBad == {Dg[gg].rules[n][1] : n \in 1..Len(Dg[gg].rules)} # 0..(Len(R) - 1)
      itemsBad == {s \in 1..nS : DiagItems(gg, s) # DumpItemsR(gg, s)}
      closureBad == {s \in 1..nS : SpecStateOf(gg, s) = 0}
      lineBad == {<<s, X>> \in (1..nS) \X syms :
                    LET rc == DumpCell(gg, s - 1, X) a == ActOn(gg, s, X) ex == ExpectedLine(rc) IN
                    \/ NActs(gg, s, X) > 1
                    \/ IF ~IsT(X) THEN (IF rc[1] = "shift" THEN a[2] # "goto" \/ a[3] # rc[2] ELSE a[2] # "none")
                       ELSE a[2] # ex[1] \/ (ex[2] >= 0 /\ a[3] # ex[2])}
      conflictBad == {<<s, X>> \in (1..nS) \X {Y \in syms : IsT(Y)} :
                    LET q == SpecStateOf(gg, s) a == ActOn(gg, s, X) IN
                    q # 0 /\
                    LET sc == A[gg].tbl[q][X]
                        isRR == <<q, X>> \in A[gg].rr
                        isSR == <<q, X>> \in A[gg].conflicts /\ ~isRR
                    IN \/ (a[2] = "rr") # isRR
                       \/ (a[2] \in {"sr_reduce", "sr_shift"}) # isSR
                       \/ (isSR /\ a[2] = "sr_reduce" /\ ~(sc[1] = "reduce" /\ a[3] = sc[4]))
                       \/ (isSR /\ a[2] = "sr_shift" /\ ~(sc[1] \in {"shift", "shifterr"} /\ a[3] = sc[4]))}
  IN IF Dg[gg].unknown # <<>> THEN <<"unparsed-line", Dg[gg].unknown[1]>>
     ELSE IF nS # Ds[gg].state_count THEN <<"state-count", nS, Ds[gg].state_count>>
     ELSE IF rulesBad # {} \/ numbersBad THEN <<"rules-section", IF rulesBad # {} THEN Dg[gg].rules[CHOOSE n \in rulesBad : TRUE] ELSE <<>> >>
     ELSE IF itemsBad # {} THEN <<"items-differ-from-real-state", (CHOOSE s \in itemsBad : TRUE) - 1>>
     ELSE IF closureBad # {} THEN <<"items-not-a-canonical-lr1-state", (CHOOSE s \in closureBad : TRUE) - 1>>
     ELSE IF lineBad # {} THEN (LET c == CHOOSE c \in lineBad : TRUE IN <<"action-line-differs-from-real-cell", c[1] - 1, c[2], ActOn(gg, c[1], c[2]), DumpCell(gg, c[1] - 1, c[2])>>)
     ELSE IF conflictBad # {} THEN (LET c == CHOOSE c \in conflictBad : TRUE IN <<"conflict-line", c[1] - 1, c[2], ActOn(gg, c[1], c[2]), A[gg].tbl[SpecStateOf(gg, c[1])][c[2]]>>)
     ELSE <<>>

\* ---- the LEXICAL ANALYZER section against the dumped lexer automaton (growth beyond C11's statement: the readme documents
\* the format "STATE <nr> [recognized <term>] {<char_descr> -> <new_state>}" and "(unreachable)")
LexProblems(gg) ==
  LET dl == Ds[gg].lexer pl == Dg[gg].lexer IN
  IF Len(dl) = 0 THEN <<>>                                   \* custom lexer: no section
  ELSE IF Len(pl) # Len(dl) THEN <<"lexer-state-count", Len(pl), Len(dl)>>
  ELSE LET badS == {q \in 1..Len(dl) :
                      \/ pl[q].n # q - 1
                      \/ pl[q].unr # dl[q].unr
                      \/ (dl[q].unr = 0 /\ \/ pl[q].rec # dl[q].end
                                             \/ pl[q].name # (IF dl[q].rec = <<>> THEN "" ELSE Ds[gg].term_names[dl[q].rec[1] + 1])
                                             \/ pl[q].tr # dl[q].tr)}
       IN IF badS = {} THEN <<>> ELSE <<"lexer-state-line-differs-from-real-state", (CHOOSE q \in badS : TRUE) - 1>>
LexReported == LexProblems(gx) = <<>> \/ PrintT(<<"DIAGLEX", ToJson([g |-> Gs[gx].id, why |-> LexProblems(gx)])>>)

DiagReported == Problems(gx) = <<>> \/ PrintT(<<"DIAG", ToJson([g |-> Gs[gx].id, why |-> Problems(gx)])>>)
Summary == PrintT(<<"DIAGSUM", ToJson([g |-> Gs[gx].id, states |-> Len(Dg[gx].states), conflicts |-> Cardinality(A[gx].conflicts), rr |-> Cardinality(A[gx].rr),
                                       lines |-> Cardinality({<<s, k>> \in (1..Len(Dg[gx].states)) \X (1..200) : k <= Len(Dg[gx].states[s].actions)})])>>)
=============================================================================
