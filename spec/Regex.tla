------------------------------- MODULE Regex -------------------------------
(***************************************************************************)
(* Regular expressions of ctpg: abstract syntax, denotation, and the       *)
(* automaton builder AS THE CODE DOES IT.                                  *)
(*                                                                         *)
(* Alphabet: the byte values 0..255 are partitioned, per pattern, into K   *)
(* contiguous segments induced by the character sets the pattern mentions  *)
(* (computed by the orchestrator from the recorded char_subset arguments). *)
(* A segment is treated uniformly and in byte order by every builder       *)
(* operation (DESIGN.md, C03), so one model step per segment is exact.     *)
(*                                                                         *)
(* AST:  [op |-> "set", cs |-> set of segments]                            *)
(*       [op |-> "star"|"plus"|"opt", a]   [op |-> "rep", a, n]            *)
(*       [op |-> "cat"|"alt", a, b]        [op |-> "eps"]                  *)
(*                                                                         *)
(* Reference semantics: Antimirov partial derivatives (finitely many       *)
(* derivative terms, so the product with an automaton is finite and        *)
(* language equivalence is decided exactly).                               *)
(*                                                                         *)
(* Code modelled (ctpg.hpp): regex::dfa_state, dfa_builder (primary_*,     *)
(* star, plus, opt, rep, cat, alt, merge, mark_end_state(s)),              *)
(* add_conflicted_term, dfa_size_analyzer, add_term_data_to_dfa.           *)
(***************************************************************************)
EXTENDS Naturals, Integers, Sequences, FiniteSets, TLC

NONE == 65535
SetOf(sq) == {sq[i] : i \in DOMAIN sq}      \* JSON has no sets: character sets arrive as sequences of segments

(************************* reference semantics ****************************)
EPS == [op |-> "eps"]
RECURSIVE Nul(_)
Nul(r) == CASE r.op = "eps" -> TRUE [] r.op = "set" -> FALSE [] r.op = "star" -> TRUE [] r.op = "opt" -> TRUE
            [] r.op = "plus" -> Nul(r.a) [] r.op = "rep" -> (r.n = 0 \/ Nul(r.a))
            [] r.op = "cat" -> Nul(r.a) /\ Nul(r.b) [] r.op = "alt" -> Nul(r.a) \/ Nul(r.b)
MkCat(x, y) == IF x.op = "eps" THEN y ELSE IF y.op = "eps" THEN x ELSE [op |-> "cat", a |-> x, b |-> y]
RECURSIVE PD(_, _)
PD(c, r) == CASE r.op = "eps" -> {}
              [] r.op = "set" -> IF c \in r.cs THEN {EPS} ELSE {}
              [] r.op = "star" -> {MkCat(d, r) : d \in PD(c, r.a)}
              [] r.op = "plus" -> {MkCat(d, [op |-> "star", a |-> r.a]) : d \in PD(c, r.a)}
              [] r.op = "opt" -> PD(c, r.a)
              [] r.op = "rep" -> IF r.n = 0 THEN {} ELSE {MkCat(d, [op |-> "rep", a |-> r.a, n |-> r.n - 1]) : d \in PD(c, r.a)}
              [] r.op = "cat" -> {MkCat(d, r.b) : d \in PD(c, r.a)} \cup (IF Nul(r.a) THEN PD(c, r.b) ELSE {})
              [] r.op = "alt" -> PD(c, r.a) \cup PD(c, r.b)
PDSet(c, rs) == UNION {PD(c, r) : r \in rs}
AnyNul(rs) == \E r \in rs : Nul(r)

(************************* the builder, as coded **************************)
\* (TLCEval: function constructors are lazy in TLC; without forcing them the builder model becomes a deep chain of thunks)
NewState(K) == [st |-> FALSE, en |-> FALSE, un |-> FALSE, rec |-> <<>>, tr |-> TLCEval([s \in 1..K |-> NONE]), mf |-> {}]
\* sm is a sequence; state number i (0-based) lives at sm[i + 1]
Get(sm, i) == sm[i + 1]
Put(sm, i, f, v) == [sm EXCEPT ![i + 1][f] = v]
PutTr(sm, i, seg, v) == [sm EXCEPT ![i + 1].tr[seg] = v]

\* mark_end_state: only end states record a recognised term; four slots (add_conflicted_term)
AddRec(sm, i, term) == IF ~Get(sm, i).en THEN sm
                       ELSE IF Len(Get(sm, i).rec) < 4 THEN Put(sm, i, "rec", Append(Get(sm, i).rec, term)) ELSE sm

RECURSIVE Merge(_, _, _, _, _, _)
RECURSIVE MergeSegs(_, _, _, _, _, _, _)
RECURSIVE CopyRecs(_, _, _, _)
CopyRecs(sm, to, from, j) == IF j > Len(Get(sm, from).rec) THEN sm ELSE CopyRecs(AddRec(sm, to, Get(sm, from).rec[j]), to, from, j + 1)
MergeSegs(K, sm, to, from, keep, mark, seg) ==
  IF seg > K THEN sm
  ELSE LET trf == Get(sm, from).tr[seg] IN
       IF trf = NONE THEN MergeSegs(K, sm, to, from, keep, mark, seg + 1)
       ELSE LET trt == Get(sm, to).tr[seg] IN
            IF trt = NONE THEN MergeSegs(K, Put(PutTr(sm, to, seg, trf), trf, "un", FALSE), to, from, keep, mark, seg + 1)
            ELSE MergeSegs(K, Merge(K, sm, trt, trf, keep, mark), to, from, keep, mark, seg + 1)
Merge(K, sm, to, from, keep, mark) ==
  IF to = from THEN sm
  ELSE IF from \in Get(sm, to).mf THEN sm
  ELSE LET s1 == Put(sm, to, "mf", Get(sm, to).mf \cup {from})
           s2 == Put(s1, from, "st", FALSE)
           s3 == Put(s2, to, "en", IF keep THEN (Get(s2, to).en \/ Get(s2, from).en) ELSE Get(s2, from).en)
           s4 == Put(s3, from, "un", mark)
           s5 == MergeSegs(K, s4, to, from, keep, mark, 1)
       IN CopyRecs(s5, to, from, 1)

Primary(K, sm, cs) == LET old == Len(sm)
                          a == [NewState(K) EXCEPT !.st = TRUE, !.tr = TLCEval([s \in 1..K |-> IF s \in cs THEN old + 1 ELSE NONE])]
                          b == [NewState(K) EXCEPT !.en = TRUE]
                      IN [sm |-> sm \o <<a, b>>, sl |-> [start |-> old, n |-> 2]]
RECURSIVE LoopMerge(_, _, _, _, _, _, _)   \* for i in first..last: if sm[i].end_state then merge(i, b, keep, mark)
LoopMerge(K, sm, i, last, b, keep, mark) ==
  IF i > last THEN sm
  ELSE IF Get(sm, i).en THEN LoopMerge(K, Merge(K, sm, i, b, keep, mark), i + 1, last, b, keep, mark)
  ELSE LoopMerge(K, sm, i + 1, last, b, keep, mark)
Star(K, sm, s) == LoopMerge(K, Put(sm, s.start, "en", TRUE), s.start, s.start + s.n - 1, s.start, FALSE, FALSE)
Plus(K, sm, s) == LoopMerge(K, sm, s.start, s.start + s.n - 1, s.start, TRUE, FALSE)
Opt(sm, s)  == Put(sm, s.start, "en", TRUE)
Cat(K, sm, s1, s2) == LoopMerge(K, sm, s1.start, s1.start + s1.n - 1, s2.start, FALSE, TRUE)
Alt(K, sm, s1, s2) == Merge(K, sm, s1.start, s2.start, TRUE, TRUE)
ShiftSt(K, stt, d) == [stt EXCEPT !.tr = TLCEval([s \in 1..K |-> IF stt.tr[s] = NONE THEN NONE ELSE stt.tr[s] + d])]
RECURSIVE RepCopy(_, _, _, _, _)     \* i = 0..n-2: appends copies of the (current) slice, transitions shifted
RepCopy(K, sm, s, i, n) == IF i + 1 > n - 1 THEN sm
   ELSE RepCopy(K, sm \o TLCEval([j \in 1..s.n |-> ShiftSt(K, Get(sm, s.start + j - 1), s.n * (i + 1))]), s, i + 1, n)
RECURSIVE RepCat(_, _, _, _, _, _)
RepCat(K, sm, whole, s, i, n) == IF i + 1 > n - 1 THEN [sm |-> sm, sl |-> whole]
   ELSE RepCat(K, Cat(K, sm, whole, [start |-> whole.start + whole.n, n |-> s.n]), [start |-> whole.start, n |-> whole.n + s.n], s, i + 1, n)
RECURSIVE RepZero(_, _, _, _)
RepZero(K, sm, s, j) == IF j > s.start + s.n - 1 THEN sm
   ELSE IF Get(sm, j).st THEN RepZero(K, Put(Put(Put(sm, j, "tr", TLCEval([x \in 1..K |-> NONE])), j, "en", TRUE), j, "st", FALSE), s, j + 1)
   ELSE RepZero(K, Put(sm, j, "un", TRUE), s, j + 1)
Rep(K, sm, s, n) == IF n = 0 THEN [sm |-> RepZero(K, sm, s, s.start), sl |-> s] ELSE RepCat(K, RepCopy(K, sm, s, 0, n), s, s, 0, n)
RECURSIVE MarkEnds(_, _, _, _)
MarkEnds(sm, i, last, idx) == IF i > last THEN sm ELSE MarkEnds(AddRec(sm, i, idx), i + 1, last, idx)

(************************* dfa_size_analyzer ******************************)
RECURSIVE SizeOf(_)
SizeOf(r) == CASE r.op = "set" -> 2
               [] r.op \in {"star", "plus", "opt"} -> SizeOf(r.a)
               [] r.op = "rep" -> IF r.n = 0 THEN SizeOf(r.a) ELSE SizeOf(r.a) * r.n
               [] r.op \in {"cat", "alt"} -> SizeOf(r.a) + SizeOf(r.b)

(************************* replaying a recorded call sequence *************)
\* calls: sequence of [op, cs, n, a1, a2, ret] (slices as [start, n] records); the model builder performs the same
\* calls with the same argument slices; returns [sm, ok] where ok = every returned slice equals the recorded one.
RECURSIVE Replay(_, _, _, _, _)
Replay(K, calls, i, sm, ok) ==
  IF i > Len(calls) THEN [sm |-> sm, ok |-> ok]
  ELSE LET c == calls[i]
           r == CASE c.op = "set"  -> Primary(K, sm, SetOf(c.cs))
                  [] c.op = "star" -> [sm |-> Star(K, sm, c.a1), sl |-> c.a1]
                  [] c.op = "plus" -> [sm |-> Plus(K, sm, c.a1), sl |-> c.a1]
                  [] c.op = "opt"  -> [sm |-> Opt(sm, c.a1), sl |-> c.a1]
                  [] c.op = "rep"  -> Rep(K, sm, c.a1, c.n)
                  [] c.op = "cat"  -> [sm |-> Cat(K, sm, c.a1, c.a2), sl |-> [start |-> c.a1.start, n |-> c.a1.n + c.a2.n]]
                  [] c.op = "alt"  -> [sm |-> Alt(K, sm, c.a1, c.a2), sl |-> [start |-> c.a1.start, n |-> c.a1.n + c.a2.n]]
       IN Replay(K, calls, i + 1, r.sm, ok /\ r.sl = c.ret)

\* the AST a call sequence denotes (post-order, stack discipline of the LR parser that produced it)
RECURSIVE AstOf(_, _, _)
AstOf(calls, i, stk) ==
  IF i > Len(calls) THEN stk
  ELSE LET c == calls[i] n == Len(stk) IN
       CASE c.op = "set" -> AstOf(calls, i + 1, Append(stk, [op |-> "set", cs |-> SetOf(c.cs)]))
         [] c.op \in {"star", "plus", "opt"} -> AstOf(calls, i + 1, Append(SubSeq(stk, 1, n - 1), [op |-> c.op, a |-> stk[n]]))
         [] c.op = "rep" -> AstOf(calls, i + 1, Append(SubSeq(stk, 1, n - 1), [op |-> "rep", a |-> stk[n], n |-> c.n]))
         [] c.op \in {"cat", "alt"} -> AstOf(calls, i + 1, Append(SubSeq(stk, 1, n - 2), [op |-> c.op, a |-> stk[n - 1], b |-> stk[n]]))
=============================================================================
