SPECIFICATION Spec
INVARIANTS
  RejectionsReported
  Progress
  Safe
CHECK_DEADLOCK FALSE
