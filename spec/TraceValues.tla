---------------------------- MODULE TraceValues ----------------------------
(***************************************************************************)
(* C14: the lifecycle of semantic values.  The harness' value type logs    *)
(* every special member call with object ids (VERIF_TRACK); a functor      *)
(* taking a value logs v_take.  This module replays those events through   *)
(* the lifecycle automaton of a value-holding object:                      *)
(*      absent --v_new/v_move(to)--> live (holding payload p or nothing)   *)
(*      live --v_move(from)/v_take--> live, holding nothing                *)
(*      live --v_dtor--> destroyed                                         *)
(* and checks                                                              *)
(*   never duplicated : no copy construction / copy assignment from an     *)
(*                      object that holds a payload; no two live objects   *)
(*                      hold the same payload                              *)
(*   consumed once    : v_take only from a live object that still holds    *)
(*                      exactly the payload the functor sees               *)
(*   not after move   : (same check: a moved-from object holds nothing)    *)
(*   destroyed once   : v_dtor only of a live object; at the end of the    *)
(*                      parse (result dropped) no object is live           *)
(* One trace per initial state; problems are printed as VALUES lines.      *)
(***************************************************************************)
EXTENDS Naturals, Integers, Sequences, FiniteSets, TLC, Json, IOUtils

Items == ndJsonDeserialize(IOEnv.VERIF_VALUES)

VARIABLES vx, vpos, vlive, vpay, vbad
vvars == <<vx, vpos, vlive, vpay, vbad>>

Init == \E i \in 1..Len(Items) : vx = i /\ vpos = 1 /\ vlive = {} /\ vpay = <<>> /\ vbad = <<>>

E == Items[vx].events
\* vpay is a sequence of <<oid, payload>> pairs for live objects (association list: object ids are sparse)
Pay(o) == LET m == {k \in DOMAIN vpay : vpay[k][1] = o} IN IF m = {} THEN -1 ELSE vpay[CHOOSE k \in m : TRUE][2]
SetIn(sq, o, p) == Append(SelectSeq(sq, LAMBDA x : x[1] # o), <<o, p>>)
SetPay(o, p) == SetIn(vpay, o, p)
MovePay(from, to) == SetIn(SetIn(vpay, to, Pay(from)), from, -1)      \* the source keeps nothing
DropPay(o) == SelectSeq(vpay, LAMBDA x : x[1] # o)
Holders(p) == {k \in DOMAIN vpay : vpay[k][2] = p}

Step ==
  /\ vbad = <<>> /\ vpos <= Len(E)
  /\ LET e == E[vpos] k == e[1] a == e[2] b == e[3] IN
     /\ vpos' = vpos + 1 /\ UNCHANGED vx
     /\ CASE k = "v_new" ->
               IF a \in vlive THEN vbad' = <<"object id constructed twice", vpos, a>> /\ UNCHANGED <<vlive, vpay>>
               ELSE IF b >= 0 /\ Holders(b) # {} THEN vbad' = <<"payload already held by another object", vpos, b>> /\ UNCHANGED <<vlive, vpay>>
               ELSE vlive' = vlive \cup {a} /\ vpay' = SetPay(a, b) /\ vbad' = vbad
          [] k = "v_move" ->
               IF a \notin vlive \/ b \in vlive THEN vbad' = <<"move construction from a dead / into a live object", vpos, a, b>> /\ UNCHANGED <<vlive, vpay>>
               ELSE vlive' = vlive \cup {b} /\ vpay' = MovePay(a, b) /\ vbad' = vbad
          [] k = "v_massign" ->
               IF a \notin vlive \/ b \notin vlive THEN vbad' = <<"move assignment involving a dead object", vpos, a, b>> /\ UNCHANGED <<vlive, vpay>>
               ELSE vlive' = vlive /\ vpay' = MovePay(a, b) /\ vbad' = vbad
          [] k \in {"v_copy", "v_cassign"} ->
               IF a \in vlive /\ Pay(a) >= 0 THEN vbad' = <<"value duplicated (copied while it holds a payload)", vpos, a, Pay(a)>> /\ UNCHANGED <<vlive, vpay>>
               ELSE vlive' = (IF k = "v_copy" THEN vlive \cup {b} ELSE vlive) /\ vpay' = SetPay(b, -1) /\ vbad' = vbad
          [] k = "v_take" ->
               IF a \notin vlive THEN vbad' = <<"functor handed a destroyed object", vpos, a>> /\ UNCHANGED <<vlive, vpay>>
               ELSE IF b >= 0 /\ Pay(a) # b THEN vbad' = <<"functor handed a value that was moved from / already consumed", vpos, a, b, Pay(a)>> /\ UNCHANGED <<vlive, vpay>>
               ELSE vlive' = vlive /\ vpay' = SetPay(a, -1) /\ vbad' = vbad
          [] k = "v_dtor" ->
               IF a \notin vlive THEN vbad' = <<"destroyed twice / never constructed", vpos, a>> /\ UNCHANGED <<vlive, vpay>>
               ELSE vlive' = vlive \ {a} /\ vpay' = DropPay(a) /\ vbad' = vbad
          [] OTHER -> UNCHANGED <<vlive, vpay, vbad>>
Finish ==
  /\ vbad = <<>> /\ vpos = Len(E) + 1
  /\ vbad' = IF vlive = {} THEN <<"ok">> ELSE <<"not destroyed at the end of the parse", vpos, vlive>>
  /\ UNCHANGED <<vx, vpos, vlive, vpay>>
Next == Step \/ Finish
Spec == Init /\ [][Next]_vvars

Reported == vbad = <<>> \/ vbad = <<"ok">> \/ PrintT(<<"VALUES", ToJson([id |-> Items[vx].id, why |-> vbad])>>)
=============================================================================
