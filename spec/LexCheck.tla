------------------------------ MODULE LexCheck ------------------------------
(***************************************************************************)
(* C04 (automaton layer): the lexer automaton of a TERM SET, built by the  *)
(* real add_term_data_to_dfa overloads in terms(...) order, against        *)
(*   ref    per-term reference languages (derivative sets), longest match, *)
(*          first-listed priority:  in every reachable situation the term  *)
(*          the automaton reports = the least index whose language         *)
(*          contains the string read so far (none if none), and the        *)
(*          automaton may only stop where no term can still match;         *)
(*   model  Regex.tla's transcription of the builder performing the same   *)
(*          term additions (char / string / regex glue + recorded calls).  *)
(* Printed: LXREF (real vs reference), LXMODEL (real vs modelled design),   *)
(* LXSTATIC (sizes / state-by-state).                                      *)
(***************************************************************************)
EXTENDS Regex, Json, IOUtils

Items == ndJsonDeserialize(IOEnv.VERIF_LX)
NI == Len(Items)
DEAD == 99999

\* ---- the glue of add_term_data_to_dfa, as coded
AddChar(K, sm, seg, idx) ==
  LET prev == [start |-> 0, n |-> Len(sm)]
      r == Primary(K, sm, {seg})
      m == MarkEnds(r.sm, r.sl.start, r.sl.start + r.sl.n - 1, idx)
  IN Alt(K, m, prev, r.sl)
RECURSIVE StrChain(_, _, _, _, _)
StrChain(K, sm, whole, segs, i) ==
  IF i > Len(segs) THEN [sm |-> sm, sl |-> whole]
  ELSE LET r == Primary(K, sm, {segs[i]})
           c == Cat(K, r.sm, whole, r.sl)
       IN StrChain(K, c, [start |-> whole.start, n |-> whole.n + r.sl.n], segs, i + 1)
AddString(K, sm, segs, idx) ==
  LET prev == [start |-> 0, n |-> Len(sm)]
      r0 == Primary(K, sm, {segs[1]})
      r == StrChain(K, r0.sm, r0.sl, segs, 2)
      m == MarkEnds(r.sm, r.sl.start, r.sl.start + r.sl.n - 1, idx)
  IN Alt(K, m, prev, r.sl)
AddRegex(K, sm, calls, whole, idx) ==
  LET prev == [start |-> 0, n |-> Len(sm)]
      r == Replay(K, calls, 1, sm, TRUE)
      m == MarkEnds(r.sm, whole.start, whole.start + whole.n - 1, idx)
  IN Alt(K, m, prev, whole)
RECURSIVE AddTerms(_, _, _, _)
AddTerms(K, terms, i, sm) ==
  IF i > Len(terms) THEN sm
  ELSE LET t == terms[i] IN
       AddTerms(K, terms, i + 1,
                CASE t.kind = "C" -> AddChar(K, sm, t.segs[1], i - 1)
                  [] t.kind = "S" -> AddString(K, sm, t.segs, i - 1)
                  [] t.kind = "R" -> AddRegex(K, sm, t.calls, t.whole, i - 1))

\* ---- reference languages
RECURSIVE CatOfSegs(_, _)
CatOfSegs(segs, i) == IF i = Len(segs) THEN [op |-> "set", cs |-> {segs[i]}]
                      ELSE [op |-> "cat", a |-> [op |-> "set", cs |-> {segs[i]}], b |-> CatOfSegs(segs, i + 1)]
TermAst(t) == IF t.kind = "R" THEN AstOf(t.calls, 1, <<>>)[1] ELSE CatOfSegs(t.segs, 1)

RECURSIVE BuildL(_, _)
BuildL(lo, hi) == IF lo > hi THEN <<>>
                  ELSE IF lo = hi THEN <<TLCEval(AddTerms(Items[lo].K, Items[lo].terms, 1, <<>>))>>
                  ELSE LET m == (lo + hi) \div 2 IN BuildL(lo, m) \o BuildL(m + 1, hi)
Models == IF PrintT("PRECOMPUTE") THEN BuildL(1, NI) ELSE <<>>

VARIABLES px, qr, qm, dv, wit
vars == <<px, qr, qm, dv, wit>>
vw == <<px, qr, qm, dv>>

Init == \E i \in 1..NI : px = i /\ qr = 0 /\ qm = 0 /\ wit = <<>>
                         /\ dv = [t \in 1..Len(Items[i].terms) |-> {TermAst(Items[i].terms[t])}]
StepReal(i, q, c) == IF q = DEAD THEN DEAD ELSE LET x == Items[i].dfa[q + 1].tr[c] IN IF x = NONE THEN DEAD ELSE x
StepModel(i, q, c) == IF q = DEAD THEN DEAD ELSE LET x == Models[i][q + 1].tr[c] IN IF x = NONE THEN DEAD ELSE x
AllDead(d) == \A t \in DOMAIN d : d[t] = {}
Next == \E c \in 1..Items[px].K :
          /\ qr' = StepReal(px, qr, c) /\ qm' = StepModel(px, qm, c)
          /\ dv' = [t \in DOMAIN dv |-> PDSet(c, dv[t])]
          /\ wit' = Append(wit, c) /\ UNCHANGED px
          /\ ~(qr' = DEAD /\ qm' = DEAD /\ AllDead(dv'))
Spec == Init /\ [][Next]_vars

RealRec == IF qr = DEAD \/ Items[px].dfa[qr + 1].rec = <<>> THEN -1 ELSE Items[px].dfa[qr + 1].rec[1]
ModelRec == IF qm = DEAD \/ Models[px][qm + 1].rec = <<>> THEN -1 ELSE Models[px][qm + 1].rec[1]
RefRec == LET ok == {t \in DOMAIN dv : AnyNul(dv[t])} IN IF ok = {} THEN -1 ELSE (CHOOSE t \in ok : \A u \in ok : t <= u) - 1
\* the automaton gave up (no transition) although some term could still match a longer lexeme
CutShort == qr = DEAD /\ ~AllDead(dv)
RefReported == (RealRec = RefRec /\ ~CutShort)
               \/ PrintT(<<"LXREF", ToJson([id |-> Items[px].id, w |-> wit, real |-> RealRec, ref |-> RefRec, cut |-> CutShort])>>)
ModelReported == (RealRec = ModelRec /\ (qr = DEAD) = (qm = DEAD))
                 \/ PrintT(<<"LXMODEL", ToJson([id |-> Items[px].id, w |-> wit, real |-> RealRec, model |-> ModelRec])>>)

StateSame(i, q) == LET r == Items[i].dfa[q] m == Models[i][q] IN
                   /\ r.en = m.en /\ r.un = m.un /\ r.rec = m.rec /\ r.tr = [s \in 1..Items[i].K |-> m.tr[s]]
StaticProblems(i) ==
  IF Len(Items[i].dfa) > Items[i].pred THEN <<"capacity", Len(Items[i].dfa), Items[i].pred>>      \* C12: sum of Terms::dfa_size suffices
  ELSE IF Len(Items[i].dfa) # Len(Models[i]) THEN <<"size-used", Len(Items[i].dfa), Len(Models[i])>>
  ELSE LET d == {q \in 1..Len(Models[i]) : ~StateSame(i, q)} IN
       IF d = {} THEN <<>> ELSE <<"state", (CHOOSE q \in d : TRUE) - 1>>
StaticReported == wit # <<>> \/ StaticProblems(px) = <<>> \/ PrintT(<<"LXSTATIC", ToJson([id |-> Items[px].id, why |-> StaticProblems(px)])>>)
=============================================================================
