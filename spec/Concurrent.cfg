SPECIFICATION Spec
CONSTANTS
  Threads = {1, 2}
  Syms = {10, 11}
  K = 3
  MaxLen = 2
  Calls = 2
INVARIANT Isolated
PROPERTY Immutable
CHECK_DEADLOCK FALSE
