----------------------------- MODULE MCDriver -----------------------------
(***************************************************************************)
(* Design check (A): the driver on the specification's own canonical       *)
(* LR(1) table, for every grammar of the run and EVERY input byte string   *)
(* of length <= L over the grammar's alphabet, against oracles that share  *)
(* nothing with LR parsing:                                                *)
(*   C01  accepted  <=>  the token string is derivable (Lang fixpoint)     *)
(*   C02  the value returned is a derivation tree whose yield is the token *)
(*        string; every functor call made belongs to it (no recovery)      *)
(*   C09  exactly one message on failure, naming the first token that      *)
(*        cannot continue any viable prefix (PrefLang fixpoint), or the    *)
(*        first byte no term matches; nothing on success                   *)
(*   C06  positions stay inside the input; stacks stay in sync             *)
(*   C08  after a successful recovery, input tokens are missing from the   *)
(*        result tree only where an `error` leaf stands                    *)
(*   C05  for operator grammars the result tree is the one the readme's    *)
(*        four precedence rules define at tree level (no table involved)   *)
(***************************************************************************)
EXTENDS Tables

CONSTANTS L, WSBYTES     \* maximal input length; extra bytes added to every alphabet (whitespace, an unknown byte)

VARIABLES g, inp, opt, stack, sstack, vals, nodes, it, endIt, cur, line, col, mode, ph, status, msgs, red, mxd, lexev, ev
vars == <<g, inp, opt, stack, sstack, vals, nodes, it, endIt, cur, line, col, mode, ph, status, msgs, red, mxd, lexev, ev>>

NoLexLines(gg, bytes, p, ln, cl, vb) == <<>>
D == INSTANCE Driver WITH RCell <- SpecCell, SCell <- SpecCell, LexAt <- LexDispatch, GR <- GRof, LexLines <- NoLexLines

RECURSIVE Strings(_, _)
Strings(S, n) == IF n = 0 THEN {<<>>} ELSE LET P == Strings(S, n - 1) IN P \cup {Append(s, b) : s \in {q \in P : Len(q) = n - 1}, b \in S}

Alpha(gg) == Range(Gs[gg].alpha) \cup WSBYTES
Opts == {[v |-> TRUE, ws |-> TRUE, nl |-> TRUE, cat |-> 0]}

Init == \E gg \in 1..NG : \E bytes \in Strings(Alpha(gg), L) : \E o \in Opts : D!Init0(gg, bytes, o)
Next == D!DNext
Spec == Init /\ [][Next]_vars
\* C06 (termination): under weak fairness of the step relation every parse of a finite input ends
FairSpec == Spec /\ WF_vars(Next)
Terminates == <>(status # "run")

(************************* oracles ****************************************)
\* tokens of the input, independent of the driver: <<ok, token sequence>>
RECURSIVE Toks(_, _, _, _)
Toks(gg, b, p, acc) ==
  LET q == D!SkipWs(b, p, D!WsSet(opt)) IN
  IF q = Len(b) THEN <<TRUE, acc>>
  ELSE LET lx == LexDispatch(gg, b, q, {}) IN IF lx[1] = -1 THEN <<FALSE, acc>> ELSE Toks(gg, b, q + lx[2], Append(acc, lx[1]))

LangOf == TLCEval([gg \in 1..NG |-> Lang(Gs[gg], L)[Gs[gg].root]])
PrefOf == TLCEval([gg \in 1..NG |-> PrefLang(Gs[gg], L)[Gs[gg].root]])
NoErrRules(gg) == \A i \in 1..Len(Gs[gg].rules) : \A k \in 1..Len(Gs[gg].rules[i].r) : Gs[gg].rules[i].r[k] # Err(Gs[gg])
ConflictFree(gg) == A[gg].conflicts = {}

Done == status # "run"
\* C01
AcceptsExactlyTheLanguage ==
  (Done /\ ConflictFree(g) /\ NoErrRules(g)) =>
     LET tk == Toks(g, inp, 0, <<>>) IN (status = "acc") <=> (tk[1] /\ tk[2] \in LangOf[g])

\* C02: yield of the result tree, and tree validity
RECURSIVE Yield(_, _)
Yield(ns, id) == IF ns[id + 1].k = 0 THEN <<TB + ns[id + 1].sym>>
                 ELSE LET ch == ns[id + 1].ch IN
                      LET RECURSIVE YCat(_) YCat(i) == IF i > Len(ch) THEN <<>> ELSE Yield(ns, ch[i]) \o YCat(i + 1) IN YCat(1)
RECURSIVE IsDeriv(_, _, _)
IsDeriv(gg, ns, id) ==        \* the tree rooted at id is a derivation tree: children match the rule's right side
  \/ ns[id + 1].k = 0
  \/ LET r == A[gg].R[ns[id + 1].sym + 1] ch == ns[id + 1].ch IN
     /\ Len(ch) = Len(r.r)
     /\ \A i \in 1..Len(ch) : /\ ch[i] >= 0
                              /\ IF IsT(r.r[i]) THEN ns[ch[i] + 1].k = 0 /\ TB + ns[ch[i] + 1].sym = r.r[i]
                                 ELSE ns[ch[i] + 1].k = 1 /\ A[gg].R[ns[ch[i] + 1].sym + 1].l = r.r[i]
                              /\ IsDeriv(gg, ns, ch[i])
RECURSIVE TreeIds(_, _)
TreeIds(ns, id) == {id} \cup UNION {TreeIds(ns, ns[id + 1].ch[i]) : i \in 1..Len(ns[id + 1].ch)}
ResultIsDerivationTree ==
  (status = "acc" /\ NoErrRules(g) /\ ConflictFree(g)) =>
     /\ Len(vals) = 1
     /\ IsDeriv(g, nodes, vals[1])
     /\ A[g].R[nodes[vals[1] + 1].sym + 1].l = Gs[g].root
     /\ Yield(nodes, vals[1]) = Toks(g, inp, 0, <<>>)[2]
     /\ TreeIds(nodes, vals[1]) = 0..(Len(nodes) - 1)        \* every functor call made is a node of the result, once

\* C05: the readme's four rules read at the level of the RESULT TREE, for operator grammars (one nonterminal X; every rule
\* is  X -> X t X  (binary),  X -> t X  (prefix), or neither starts nor ends with X).  No table, no item sets, no states:
\*   (1) a binary/prefix node whose yield is followed by a binary operator t was reduced although t could have been
\*       shifted:  the rules must prefer the reduction of its rule over t;
\*   (2) a binary (prefix) node whose right (only) operand is itself a binary node with operator t2 shifted t2 although
\*       its own rule could have been reduced:  the rules must NOT prefer the reduction over t2.
\* Among the derivation trees of an input (ResultIsTreeOfTheInput) exactly one satisfies (1) and (2).
IsBin(rr) == Len(rr.r) = 3 /\ rr.r[1] = rr.l /\ rr.r[3] = rr.l /\ IsT(rr.r[2])
IsPre(rr) == Len(rr.r) = 2 /\ IsT(rr.r[1]) /\ rr.r[2] = rr.l
OpGrammar(gg) == LET G == Gs[gg] IN
  /\ NoErrRules(gg) /\ Len(G.rules) > 0
  /\ \A i \in 1..Len(G.rules) : LET rr == G.rules[i] IN
        /\ rr.l = G.root /\ rr.r # <<>>
        /\ \A k \in 1..Len(rr.r) : IsT(rr.r[k]) \/ rr.r[k] = G.root
        /\ IsBin(rr) \/ IsPre(rr) \/ (rr.r[1] # rr.l /\ rr.r[Len(rr.r)] # rr.l)
BinOps(gg) == {Gs[gg].rules[i].r[2] : i \in {j \in 1..Len(Gs[gg].rules) : IsBin(Gs[gg].rules[j])}}
NodeRule(gg, ns, id) == A[gg].R[ns[id + 1].sym + 1]
IsNodeOf(gg, ns, id, P(_)) == ns[id + 1].k = 1 /\ P(NodeRule(gg, ns, id))
RECURSIVE ShapeOK(_, _, _, _)
ShapeOK(gg, ns, id, nxt) ==        \* nxt: the token that follows this subtree's yield in the input (-1: the end)
  \/ ns[id + 1].k = 0
  \/ LET rr == NodeRule(gg, ns, id)
         ch == ns[id + 1].ch
         RECURSIVE After(_)
         After(i) == IF i >= Len(ch) THEN nxt ELSE LET y == Yield(ns, ch[i + 1]) IN IF y = <<>> THEN After(i + 1) ELSE y[1]
     IN /\ \A i \in 1..Len(ch) : ShapeOK(gg, ns, ch[i], After(i))
        /\ ((IsBin(rr) \/ IsPre(rr)) /\ nxt \in BinOps(gg)) => PreferReduce(Gs[gg], rr, nxt)
        /\ (IsBin(rr) /\ IsNodeOf(gg, ns, ch[3], IsBin)) => ~PreferReduce(Gs[gg], rr, NodeRule(gg, ns, ch[3]).r[2])
        /\ (IsPre(rr) /\ IsNodeOf(gg, ns, ch[2], IsBin)) => ~PreferReduce(Gs[gg], rr, NodeRule(gg, ns, ch[2]).r[2])
OpGram == TLCEval([gg \in 1..NG |-> OpGrammar(gg)])
PrecedenceShapesTheTree ==
  (status = "acc" /\ OpGram[g]) =>
     /\ Len(vals) = 1
     /\ IsDeriv(g, nodes, vals[1])
     /\ Yield(nodes, vals[1]) = Toks(g, inp, 0, <<>>)[2]
     /\ ShapeOK(g, nodes, vals[1], -1)
\* ... and resolution by precedence loses no sentence of an operator grammar: every derivable token string is accepted
OperatorGrammarAcceptsItsLanguage ==
  (Done /\ OpGram[g]) => LET tk == Toks(g, inp, 0, <<>>) IN (status = "acc") <=> (tk[1] /\ tk[2] \in LangOf[g])

\* C08: what recovery may do to the input, stated on the RESULT TREE of a parse that recovered and succeeded (no table, no
\* modes): the leaves are input tokens in input order, each used once, and input tokens are missing from the tree only
\* where an `error` leaf stands - between two neighbouring leaves that are both real tokens nothing was dropped.
RECURSIVE YieldE(_, _)
YieldE(ns, id) == IF id = -2 THEN <<-2>> ELSE IF id < 0 THEN <<>>
                  ELSE IF ns[id + 1].k = 0 THEN <<id>>
                  ELSE LET ch == ns[id + 1].ch IN
                       LET RECURSIVE YC(_) YC(i) == IF i > Len(ch) THEN <<>> ELSE YieldE(ns, ch[i]) \o YC(i + 1) IN YC(1)
TokensDroppedOnlyUnderError ==
  (status = "acc" /\ ~NoErrRules(g) /\ Len(vals) = 1) =>
    LET y == YieldE(nodes, vals[1])
        wss == D!WsSet(opt)
        EndOf(i) == IF i = 0 THEN 0 ELSE nodes[y[i] + 1].off + nodes[y[i] + 1].len
        StartOf(i) == IF i > Len(y) THEN Len(inp) ELSE nodes[y[i] + 1].off
    IN /\ \A i \in 0..Len(y) :
            ((i = 0 \/ y[i] # -2) /\ (i = Len(y) \/ y[i + 1] # -2)) => D!SkipWs(inp, EndOf(i), wss) = StartOf(i + 1)
       /\ \A i, j \in 1..Len(y) : (i < j /\ y[i] # -2 /\ y[j] # -2) => nodes[y[i] + 1].off + nodes[y[i] + 1].len <= nodes[y[j] + 1].off
       /\ (msgs = <<>>) <=> (\A i \in 1..Len(y) : y[i] # -2)

\* C09
\* index of the first token whose prefix is not viable (eof counts as token Len+1 when `eofToo'); 0 if none
FirstBad(gg, tk, eofToo) ==
  LET bad == {k \in 1..(Len(tk) + 1) : IF k <= Len(tk) THEN SubSeq(tk, 1, k) \notin PrefOf[gg] ELSE eofToo /\ tk \notin LangOf[gg]}
  IN IF bad = {} THEN 0 ELSE CHOOSE k \in bad : \A k2 \in bad : k <= k2
Reduced == TLCEval([gg \in 1..NG |-> ReducedReachable(Gs[gg])])
ReportedOnceAtTheRightPlace ==
  (Done /\ ConflictFree(g) /\ NoErrRules(g) /\ Reduced[g]) =>
     LET tk == Toks(g, inp, 0, <<>>)              \* tk[2] = the tokens before the first byte no term matches (if any)
         k  == FirstBad(g, tk[2], tk[1])
     IN IF k > 0                                   \* a syntax error comes first: reported before later input is examined
        THEN /\ status = "rej" /\ Len(msgs) = 1 /\ msgs[1][1] = "synerr"
             /\ msgs[1][4] = Append(tk[2], Eof(Gs[g]))[k]
        ELSE IF ~tk[1] THEN status = "rej" /\ Len(msgs) = 1 /\ msgs[1][1] = "unexp"
        ELSE status = "acc" /\ msgs = <<>>

Safe == D!StacksInSync /\ D!PositionsInRange

\* C12 (design level): the fixed stack capacity of cstring_buffer parses is  N + EmptyRules + 1  with N = text length + 1
EmptyRules(gg) == Cardinality({i \in 1..Len(Gs[gg].rules) : Gs[gg].rules[i].r = <<>>})
StackCap == Len(inp) + 1 + EmptyRules(g) + 1
StackFitsReported == ~Done \/ mxd <= StackCap
                     \/ PrintT(<<"STACK", ToJson([g |-> g, bytes |-> inp, need |-> mxd, cap |-> StackCap, status |-> status])>>)

(************************* expected behaviours for given inputs ***********)
\* VERIF_GIVEN: ndjson of [g, bytes, ws, nl]; TLC runs the specification on each and prints the outcome
Given == IF "VERIF_GIVEN" \in DOMAIN IOEnv THEN ndJsonDeserialize(IOEnv.VERIF_GIVEN) ELSE <<>>
InitGiven == \E i \in 1..Len(Given) : D!Init0(Given[i].g, Given[i].bytes, [v |-> TRUE, ws |-> Given[i].ws, nl |-> Given[i].nl, cat |-> 0])
SpecGiven == InitGiven /\ [][Next]_vars
VerdictReported == ~Done \/ PrintT(<<"VERDICT", ToJson([g |-> g, bytes |-> inp, ws |-> opt.ws, nl |-> opt.nl, status |-> status, msgs |-> msgs,
                                                         root |-> IF status = "acc" THEN vals[1] ELSE -1, maxstack |-> mxd,
                                                         nodes |-> [i \in 1..Len(nodes) |-> [k |-> nodes[i].k, sym |-> nodes[i].sym, ch |-> nodes[i].ch, off |-> nodes[i].off, len |-> nodes[i].len, line |-> nodes[i].line, col |-> nodes[i].col]]])>>)
=============================================================================
