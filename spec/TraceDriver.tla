---------------------------- MODULE TraceDriver ----------------------------
(***************************************************************************)
(* Trace validation (C): every execution recorded from the real parser is  *)
(* replayed against Driver.tla.  The driven table is the one DUMPED from   *)
(* the real parser object (state numbers in the events are bound to it);   *)
(* in lockstep the specification's own canonical table is consulted with   *)
(* its own stack, and both must prescribe the same action at every step    *)
(* (this is the table product restricted to the executions observed).      *)
(*                                                                         *)
(* The specification is deterministic, so validation is a comparison of    *)
(* the event the spec emits with the next recorded event; a difference is  *)
(* stored in `bad' (and the invariant NoRejection fails) instead of        *)
(* blocking, so that one TLC run judges all traces and reports each        *)
(* rejection with its position.                                            *)
(***************************************************************************)
EXTENDS Tables

Traces == ndJsonDeserialize(IOEnv.VERIF_TRACES)

VARIABLES g, inp, opt, stack, sstack, vals, nodes, it, endIt, cur, line, col, mode, ph, status, msgs, red, mxd, lexev, ev,
          tix, pos, bad, fin
vars == <<g, inp, opt, stack, sstack, vals, nodes, it, endIt, cur, line, col, mode, ph, status, msgs, red, mxd, lexev, ev, tix, pos, bad, fin>>

D == INSTANCE Driver WITH RCell <- DumpCell, SCell <- SpecCell, LexAt <- LexDispatch, GR <- GRof, LexLines <- LexLinesDump

E == Traces[tix].events

Init == \E i \in 1..Len(Traces) :
          /\ tix = i /\ pos = 1 /\ bad = <<>> /\ fin = FALSE
          /\ D!Init0(Traces[i].g, Traces[i].bytes, [v |-> Traces[i].v, ws |-> Traces[i].ws, nl |-> Traces[i].nl, cat |-> Traces[i].cat])

\* which spec events the real parser makes observable: everything in verbose mode; the functor observers and the
\* two non-verbose messages always
\* (with the no-stream overloads or a std::ostream the harness sees only the functor observers: sk # 0)
Visible(e) == /\ e[1] # "tau"
              /\ IF Traces[tix].sk = 0 THEN (opt.v \/ e[1] \in {"tval", "call", "dcall", "ccall", "lexcall", "synerr", "unexp"})
                 ELSE e[1] \in {"tval", "call", "dcall", "ccall", "lexcall"}
Match(e, x) == e[1] = x[1] /\ Len(e) = Len(x) /\ e = x

Step ==
  /\ bad = <<>> /\ status = "run" /\ ~fin
  /\ IF D!HaveTerm /\ ~D!CellsAgree
     THEN /\ bad' = <<"table", pos, D!Top(stack), D!T, D!Cell, D!SpecCellNow>>
          /\ UNCHANGED <<g, inp, opt, stack, sstack, vals, nodes, it, endIt, cur, line, col, mode, ph, status, msgs, red, mxd, lexev, ev, tix, pos, fin>>
     ELSE /\ D!DNext
          \* the generated lexer's verbose lines (kept in the trace when Traces[tix].lexl) come as a block before the event
          /\ LET n == IF Traces[tix].lexl /\ Traces[tix].sk = 0 THEN Len(lexev') ELSE 0 IN
             IF n > 0 /\ (pos + n - 1 > Len(E) \/ SubSeq(E, pos, pos + n - 1) # lexev')
             THEN pos' = pos /\ bad' = <<"lexer-lines", pos, lexev'>>
             ELSE IF Visible(ev')
             THEN IF pos + n <= Len(E) /\ Match(ev', E[pos + n]) THEN pos' = pos + n + 1 /\ bad' = bad
                  ELSE pos' = pos /\ bad' = <<"event", pos + n, ev'>>
             ELSE pos' = pos + n /\ bad' = bad
          /\ UNCHANGED <<tix, fin>>

\* the flattened real result tree must be the tree the specification built
TreeOK == /\ Traces[tix].root = vals[1]     \* (-1: the root value is a default-constructed, empty value)
          /\ \A i \in 1..Len(Traces[tix].tree) :
               LET x == Traces[tix].tree[i] n == nodes[x[1] + 1] IN
               /\ x[2] = n.k /\ x[3] = n.sym
               /\ x[8] = [k \in DOMAIN n.ch |-> IF n.ch[k] = -1 THEN -2 ELSE n.ch[k]]      \* valueless children print alike
               /\ (n.k = 0 => x[4] = n.off /\ x[5] = n.len /\ x[6] = n.line /\ x[7] = n.col)

FinalProblems ==
  IF status = "undef" THEN <<>>
  ELSE IF pos # Len(E) + 1 THEN <<"extra-events", pos>>
  ELSE IF Traces[tix].threw # "" THEN <<"threw", Traces[tix].threw>>
  ELSE IF Traces[tix].partial # "" THEN <<"partial-line", Traces[tix].partial>>
  ELSE IF (status = "acc") # Traces[tix].ok THEN <<"verdict", status>>
  \* C13: mutations made through a non-const context are visible to the caller: one per contextual functor call
  ELSE IF Traces[tix].cat # 0 /\ Traces[tix].ctxmut # (IF Traces[tix].cat \in {2, 7} THEN 0 ELSE Cardinality({i \in 1..Len(nodes) : nodes[i].k = 1 /\ D!IsCtx(nodes[i].sym)}))
       THEN <<"context-mutations", Traces[tix].ctxmut>>
  ELSE IF status = "acc" /\ ~TreeOK THEN <<"tree", vals>>
  ELSE <<>>

Final ==
  /\ bad = <<>> /\ status # "run" /\ ~fin
  /\ fin' = TRUE /\ bad' = FinalProblems
  /\ UNCHANGED <<g, inp, opt, stack, sstack, vals, nodes, it, endIt, cur, line, col, mode, ph, status, msgs, red, mxd, lexev, ev, tix, pos>>

Next == Step \/ Final
Spec == Init /\ [][Next]_vars

\* a rejected trace is printed once, machine readable (PrintT is TRUE: TLC goes on and judges every trace; the
\* orchestrator turns REJECT lines into the verdict)
RejectionsReported == bad = <<>> \/ PrintT(<<"REJECT", ToJson([id |-> Traces[tix].id, g |-> Gs[g].id, pos |-> pos, why |-> bad])>>)
\* the specification never gets stuck on an execution the real parser performed
Progress == (bad = <<>> /\ ~fin) => ENABLED Next
Safe == bad = <<>> => (D!StacksInSync /\ D!PositionsInRange)
=============================================================================
