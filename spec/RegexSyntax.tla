---------------------------- MODULE RegexSyntax ----------------------------
(***************************************************************************)
(* The DOCUMENTED concrete syntax of ctpg patterns (readme "Regular        *)
(* expressions" table, completed by what the repository's own tests fix:   *)
(* \x, \xH, \xHH; inside sets only ']' needs escaping; '-' between two set *)
(* characters makes a range), written as a recursive-descent definition    *)
(* that shares nothing with regex_lexer / the LR grammar of the library.   *)
(*                                                                         *)
(* Doc(p) = [st, un, ast]:                                                 *)
(*   st = "ok"      p is in the documented syntax, ast is its meaning      *)
(*   st = "reject"  p contains a malformation the library must refuse:     *)
(*                  unbalanced group, unterminated set, dangling/empty     *)
(*                  repetition, empty alternative or group, leading        *)
(*                  quantifier, raw non-printable byte, trailing backslash *)
(*   un = TRUE      p uses a construct the documentation leaves open       *)
(*                  ([] and [^], reversed ranges, "[a-]", \c for an        *)
(*                  alphanumeric c, bare ] ^ - outside sets, {0}, stacked  *)
(*                  quantifiers, the empty pattern): no verdict is derived *)
(*                  from such patterns unless they ALSO contain a          *)
(*                  must-reject malformation.                              *)
(* AST atoms are sets of byte values 0..255.                               *)
(***************************************************************************)
EXTENDS Naturals, Integers, Sequences, FiniteSets, TLC

LP == 40  RP == 41  STAR == 42  PLUS == 43  QM == 63  BAR == 124  LB == 123  RB == 125
LS == 91  RS == 93  BS == 92  DOT == 46  CARET == 94  MINUS == 45  LX == 120

Printable(c) == c >= 32 /\ c <= 126
IsDigit(c) == c >= 48 /\ c <= 57
IsAlnum(c) == IsDigit(c) \/ (c >= 65 /\ c <= 90) \/ (c >= 97 /\ c <= 122)
IsHex(c) == IsDigit(c) \/ (c >= 65 /\ c <= 70) \/ (c >= 97 /\ c <= 102)
HexVal(c) == IF IsDigit(c) THEN c - 48 ELSE IF c >= 97 THEN c - 87 ELSE c - 55
At(p, i) == IF i <= Len(p) THEN p[i] ELSE -1

Lit(c) == [op |-> "set", cs |-> {c}]
Res(st, un, ast, nx) == [st |-> st, un |-> un, ast |-> ast, pos |-> nx]
Rej == Res("reject", FALSE, [op |-> "eps"], 0)

\* one character inside or outside a set, possibly escaped: [st, un, c, pos]
Esc(p, i) ==         \* p[i] = backslash
  IF i = Len(p) THEN [st |-> "reject", un |-> FALSE, c |-> 0, pos |-> 0]
  ELSE LET d == p[i + 1] IN
       IF d = LX THEN
          IF IsHex(At(p, i + 2)) THEN
             IF IsHex(At(p, i + 3)) THEN [st |-> "ok", un |-> FALSE, c |-> HexVal(p[i + 2]) * 16 + HexVal(p[i + 3]), pos |-> i + 4]
             ELSE [st |-> "ok", un |-> FALSE, c |-> HexVal(p[i + 2]), pos |-> i + 3]
          ELSE [st |-> "ok", un |-> FALSE, c |-> 0, pos |-> i + 2]
       ELSE IF ~Printable(d) THEN [st |-> "reject", un |-> FALSE, c |-> 0, pos |-> 0]
       \* readme, "Escaped char": a backslash in front of a character denotes that character (letters and digits included;
       \* only a lower-case x starts a hex escape)
       ELSE [st |-> "ok", un |-> FALSE, c |-> d, pos |-> i + 2]

SetChar(p, i) ==     \* a set member starting at i (not ']' and not end)
  IF p[i] = BS THEN Esc(p, i)
  ELSE IF ~Printable(p[i]) THEN [st |-> "reject", un |-> FALSE, c |-> 0, pos |-> 0]
  ELSE [st |-> "ok", un |-> FALSE, c |-> p[i], pos |-> i + 1]

RECURSIVE SetItems(_, _, _, _)
SetItems(p, i, acc, un) ==      \* after '[' or '[^': returns Res with ast = [op "set", cs] and pos after ']'
  IF i > Len(p) THEN Rej                                         \* unterminated set
  ELSE IF p[i] = RS THEN Res("ok", un \/ acc = {}, [op |-> "set", cs |-> acc], i + 1)
  ELSE LET a == SetChar(p, i) IN
       IF a.st = "reject" THEN Rej
       ELSE IF At(p, a.pos) = MINUS /\ At(p, a.pos + 1) # RS /\ a.pos + 1 <= Len(p) THEN
               LET b == SetChar(p, a.pos + 1) IN
               IF b.st = "reject" THEN Rej
               ELSE SetItems(p, b.pos, acc \cup (a.c .. b.c), un \/ a.un \/ b.un \/ a.c > b.c)
            ELSE IF At(p, a.pos) = MINUS /\ At(p, a.pos + 1) = RS THEN
               \* "[a-]": the documentation does not say; carry on as if '-' were a member
               SetItems(p, a.pos + 1, acc \cup {a.c, MINUS}, TRUE)
            ELSE SetItems(p, a.pos, acc \cup {a.c}, un \/ a.un)

RECURSIVE Number(_, _, _)
Number(p, i, acc) == IF IsDigit(At(p, i)) THEN Number(p, i + 1, acc * 10 + (p[i] - 48)) ELSE <<acc, i>>

RECURSIVE PAlt(_, _)
RECURSIVE PCat(_, _, _, _)
RECURSIVE PQuant(_, _)
RECURSIVE PPrim(_, _)
RECURSIVE PQuantMore(_, _)

PPrim(p, i) ==
  LET c == At(p, i) IN
  IF c = -1 THEN Rej
  ELSE IF c = LP THEN
     LET r == PAlt(p, i + 1) IN
     IF r.st = "reject" THEN Rej
     ELSE IF At(p, r.pos) # RP THEN Rej                            \* unbalanced group
     ELSE Res("ok", r.un, r.ast, r.pos + 1)
  ELSE IF c = LS THEN
     IF At(p, i + 1) = CARET THEN
        LET r == SetItems(p, i + 2, {}, FALSE) IN
        IF r.st = "reject" THEN Rej ELSE Res("ok", r.un, [op |-> "set", cs |-> (0..255) \ r.ast.cs], r.pos)
     ELSE SetItems(p, i + 1, {}, FALSE)
  ELSE IF c = BS THEN
     LET e == Esc(p, i) IN IF e.st = "reject" THEN Rej ELSE Res("ok", e.un, Lit(e.c), e.pos)
  ELSE IF c = DOT THEN Res("ok", FALSE, [op |-> "set", cs |-> 0..255], i + 1)
  ELSE IF c \in {STAR, PLUS, QM, BAR, RP, LB, RB} THEN Rej           \* quantifier / bar / brace without operand
  ELSE IF c \in {RS, CARET, MINUS} THEN Res("ok", TRUE, Lit(c), i + 1)
  ELSE IF ~Printable(c) THEN Rej                                      \* raw non-printable byte (incl. >= 0x80)
  ELSE Res("ok", FALSE, Lit(c), i + 1)

PQuant(p, i) ==
  LET r == PPrim(p, i) IN
  IF r.st = "reject" THEN Rej
  ELSE LET c == At(p, r.pos) IN
       LET q == IF c = STAR THEN Res("ok", r.un, [op |-> "star", a |-> r.ast], r.pos + 1)
                ELSE IF c = PLUS THEN Res("ok", r.un, [op |-> "plus", a |-> r.ast], r.pos + 1)
                ELSE IF c = QM THEN Res("ok", r.un, [op |-> "opt", a |-> r.ast], r.pos + 1)
                ELSE IF c = LB THEN
                     (IF ~IsDigit(At(p, r.pos + 1)) THEN Rej                 \* empty / non-numeric repetition
                      ELSE LET n == Number(p, r.pos + 1, 0) IN
                           IF At(p, n[2]) # RB THEN Rej                      \* unterminated repetition
                           ELSE Res("ok", r.un \/ n[1] = 0, [op |-> "rep", a |-> r.ast, n |-> n[1]], n[2] + 1))
                ELSE r
       IN IF q.st = "reject" THEN Rej
          \* a second quantifier directly after a quantified item: not covered by the documentation
          ELSE IF c \in {STAR, PLUS, QM, LB} /\ At(p, q.pos) \in {STAR, PLUS, QM, LB}
               THEN LET q2 == PQuantMore(p, q) IN q2
          ELSE q

\* stacked quantifiers: keep applying them (one interpretation among several), flag `un`
PQuantMore(p, q) ==
  LET c == At(p, q.pos) IN
  IF c = STAR THEN PQuantMore(p, Res("ok", TRUE, [op |-> "star", a |-> q.ast], q.pos + 1))
  ELSE IF c = PLUS THEN PQuantMore(p, Res("ok", TRUE, [op |-> "plus", a |-> q.ast], q.pos + 1))
  ELSE IF c = QM THEN PQuantMore(p, Res("ok", TRUE, [op |-> "opt", a |-> q.ast], q.pos + 1))
  ELSE IF c = LB THEN
       (IF ~IsDigit(At(p, q.pos + 1)) THEN Rej
        ELSE LET n == Number(p, q.pos + 1, 0) IN
             IF At(p, n[2]) # RB THEN Rej
             ELSE PQuantMore(p, Res("ok", TRUE, [op |-> "rep", a |-> q.ast, n |-> n[1]], n[2] + 1)))
  ELSE q

PCat(p, i, acc, un) ==          \* acc: sequence of items parsed so far
  LET c == At(p, i) IN
  IF c = -1 \/ c = RP \/ c = BAR THEN
     (IF acc = <<>> THEN Rej                                         \* empty alternative / group
      ELSE Res("ok", un, [op |-> "catl", xs |-> acc], i))
  ELSE LET r == PQuant(p, i) IN
       IF r.st = "reject" THEN Rej ELSE PCat(p, r.pos, Append(acc, r.ast), un \/ r.un)

RECURSIVE PAltMore(_, _, _, _)
PAltMore(p, i, acc, un) ==
  IF At(p, i) = BAR THEN
     LET r == PCat(p, i + 1, <<>>, FALSE) IN
     IF r.st = "reject" THEN Rej ELSE PAltMore(p, r.pos, Append(acc, r.ast), un \/ r.un)
  ELSE Res("ok", un, [op |-> "altl", xs |-> acc], i)
PAlt(p, i) ==
  LET r == PCat(p, i, <<>>, FALSE) IN
  IF r.st = "reject" THEN Rej ELSE PAltMore(p, r.pos, <<r.ast>>, r.un)

Doc(p) ==
  IF p = <<>> THEN [st |-> "ok", un |-> TRUE, ast |-> [op |-> "eps"]]
  ELSE LET r == PAlt(p, 1) IN
       IF r.st = "reject" THEN [st |-> "reject", un |-> FALSE, ast |-> [op |-> "eps"]]
       ELSE IF r.pos <= Len(p) THEN [st |-> "reject", un |-> FALSE, ast |-> [op |-> "eps"]]      \* stray ')'
       ELSE [st |-> "ok", un |-> r.un, ast |-> r.ast]

(************************* normal form for comparison *********************)
\* cat / alt chains flattened (associativity is immaterial), singleton lists dropped
RECURSIVE Norm(_)
RECURSIVE NormList(_, _, _)
NormList(kind, xs, k) ==     \* flattened sequence of the normalised members of xs[k..]
  IF k > Len(xs) THEN <<>>
  ELSE LET n == Norm(xs[k]) IN
       (IF n.op = kind THEN n.xs ELSE <<n>>) \o NormList(kind, xs, k + 1)
Norm(a) ==
  CASE a.op = "set" -> a
    [] a.op = "eps" -> a
    [] a.op \in {"star", "plus", "opt"} -> [op |-> a.op, a |-> Norm(a.a)]
    [] a.op = "rep" -> [op |-> "rep", a |-> Norm(a.a), n |-> a.n]
    [] a.op = "cat" -> LET l == NormList("catl", <<a.a, a.b>>, 1) IN [op |-> "catl", xs |-> l]
    [] a.op = "alt" -> LET l == NormList("altl", <<a.a, a.b>>, 1) IN [op |-> "altl", xs |-> l]
    [] a.op \in {"catl", "altl"} -> LET l == NormList(a.op, a.xs, 1) IN IF Len(l) = 1 THEN l[1] ELSE [op |-> a.op, xs |-> l]
=============================================================================
