------------------------------ MODULE Helpers ------------------------------
(***************************************************************************)
(* C19: the helper functors of ctpg::ftors as functions on argument lists. *)
(*                                                                         *)
(*   documented meaning (readme "Functor helpers"):                        *)
(*     _eN                  returns the N-th right-side value itself       *)
(*     construct<T, I>      builds T from the I-th value: "this constructs *)
(*                          something_type{value}" - for a list type (the  *)
(*                          readme's list_type) the list of that ONE value *)
(*     push_back<C, A>      appends the A-th value to the C-th (a          *)
(*     emplace_back<C, A>     container) and returns that container, moved *)
(*     val(v) / create<T>   return v / a default T whatever the arguments  *)
(*                                                                         *)
(*   as the templates compute it (ctpg.hpp ftors::element, construct,      *)
(*   emplace_back, push_back): the named parameters sit behind             *)
(*   ignore<>-packs whose lengths are index_sequence sizes:                *)
(*     element<X>           X - 1 ignored, then the value                  *)
(*     construct<T, I>      I - 1 ignored, then the value                  *)
(*     push/emplace<C, A>   min(C,A) - 1 ignored, first named parameter,   *)
(*                          max(C,A) - min(C,A) - 1 ignored, second named  *)
(*                          parameter; the first is the container iff C<A  *)
(*                                                                         *)
(* TLC enumerates every case (arity 1..9, every valid position / pair),    *)
(* checks that the template arithmetic selects the documented positions,   *)
(* and prints each case with its expected observable outcome; the          *)
(* orchestrator turns the cases into a translation unit that calls the     *)
(* REAL functors on tagged arguments (lvalues, rvalues, move-only types).  *)
(***************************************************************************)
EXTENDS Naturals, Sequences, FiniteSets, TLC, Json

MaxArity == 9
Min(a, b) == IF a < b THEN a ELSE b
Max(a, b) == IF a > b THEN a ELSE b

ElementCases == {[h |-> "element", n |-> n, i |-> i, j |-> 0] : n \in 1..MaxArity, i \in 1..MaxArity} 
ConstructCases == {[h |-> "construct", n |-> n, i |-> i, j |-> 0] : n \in 1..MaxArity, i \in 1..MaxArity}
PairCases(h) == {[h |-> h, n |-> n, i |-> c, j |-> a] : n \in 1..MaxArity, c \in 1..MaxArity, a \in 1..MaxArity}
Valid(c) == IF c.h \in {"element", "construct"} THEN c.i <= c.n
            ELSE IF c.h \in {"push_back", "emplace_back"} THEN c.i <= c.n /\ c.j <= c.n /\ c.i # c.j
            ELSE TRUE
Cases == {c \in ElementCases \cup ConstructCases \cup PairCases("push_back") \cup PairCases("emplace_back")
                 \cup {[h |-> "val", n |-> n, i |-> 0, j |-> 0] : n \in 0..MaxArity} \cup {[h |-> "create", n |-> n, i |-> 0, j |-> 0] : n \in 0..MaxArity} : Valid(c)}

\* documented meaning: which argument is returned / read / appended to which
\* what construct<list_type, I> yields: the one-element list of the I-th value (positions stand for the values)
Built(c) == IF c.h = "construct" THEN <<c.i>> ELSE <<>>
Doc(c) == CASE c.h = "element"   -> [ret |-> c.i, reads |-> {}, cont |-> 0, elem |-> 0]
            [] c.h = "construct" -> [ret |-> 0, reads |-> {c.i}, cont |-> 0, elem |-> 0]
            [] c.h \in {"push_back", "emplace_back"} -> [ret |-> c.i, reads |-> {c.j}, cont |-> c.i, elem |-> c.j]
            [] OTHER -> [ret |-> 0, reads |-> {}, cont |-> 0, elem |-> 0]
\* the same, through the template arithmetic
Tpl(c) == CASE c.h = "element"   -> LET skip == c.i - 1 IN [ret |-> skip + 1, reads |-> {}, cont |-> 0, elem |-> 0]
            [] c.h = "construct" -> LET skip == c.i - 1 IN [ret |-> 0, reads |-> {skip + 1}, cont |-> 0, elem |-> 0]
            [] c.h \in {"push_back", "emplace_back"} ->
                 LET s1 == Min(c.i, c.j) - 1
                     s2 == Max(c.i, c.j) - Min(c.i, c.j) - 1
                     first == s1 + 1
                     second == s1 + 1 + s2 + 1
                     contFirst == c.i < c.j
                 IN [ret |-> IF contFirst THEN first ELSE second, reads |-> {IF contFirst THEN second ELSE first},
                     cont |-> IF contFirst THEN first ELSE second, elem |-> IF contFirst THEN second ELSE first]
            [] OTHER -> [ret |-> 0, reads |-> {}, cont |-> 0, elem |-> 0]

\* Forwarding.  The caller hands each argument over as an lvalue ("lv"), as an rvalue ("rv") or as an rvalue of a move-only
\* type ("mo").  A helper that READS an argument to build something from it (construct<T, I>) hands it on in the caller's
\* category: T's constructor sees an rvalue (1: it may move from the caller's object) exactly when the caller gave one,
\* an lvalue (0: the caller's object is copied from and left intact) otherwise.  Arguments behind ignore<> are not touched.
Categories == {"lv", "rv", "mo"}
ReachesAsRvalue(cat) == IF cat = "lv" THEN 0 ELSE 1
Reach(c) == IF c.h = "construct" THEN [lv |-> ReachesAsRvalue("lv"), rv |-> ReachesAsRvalue("rv"), mo |-> ReachesAsRvalue("mo")]
            ELSE [lv |-> 0, rv |-> 0, mo |-> 0]
\* (a helper that forwards unconditionally as an rvalue - std::move for std::forward - would be ReachesAsRvalue == 1)
ForwardingKeepsLvaluesIntact == \A cat \in Categories : (cat = "lv") => ReachesAsRvalue(cat) = 0

VARIABLE hc
Init == hc \in Cases
Next == UNCHANGED hc
Spec == Init /\ [][Next]_hc

TemplateMatchesDoc == Tpl(hc) = Doc(hc)
CaseReported == PrintT(<<"HCASE", ToJson([h |-> hc.h, n |-> hc.n, i |-> hc.i, j |-> hc.j, ret |-> Doc(hc).ret, cont |-> Doc(hc).cont, elem |-> Doc(hc).elem, built |-> Built(hc), reach |-> Reach(hc)])>>)
=============================================================================
