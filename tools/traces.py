"""Harness trace records -> events for the TLA+ trace specifications.

Each verbose line becomes exactly one event, by pattern only (no state is guessed); a line that matches no pattern
becomes ["unknown", text] and can never be matched by the specification.  Observer events (tval/call/oob/...) are
passed through.  Output tuples have exactly the shape of the `ev` values produced by spec/Driver.tla.
"""
import re, json

RX = [
    ('rec',     re.compile(r'^\[(\d+):(\d+)\] PARSE: Recognized (.*) $', re.S)),
    ('unexp',   re.compile(r'^\[(\d+):(\d+)\] PARSE: Unexpected character: (.)$', re.S)),
    ('shift',   re.compile(r'^\[(\d+):(\d+)\] PARSE: Shift to (\d+), term: (.*)$', re.S)),
    ('reduce',  re.compile(r'^\[(\d+):(\d+)\] PARSE: Reduced using rule (\d+)  (.*)$', re.S)),
    ('goto',    re.compile(r'^\[(\d+):(\d+)\] PARSE: Go to (\d+)$')),
    ('synerr',  re.compile(r"^\[(\d+):(\d+)\] PARSE: Syntax error: Unexpected '(.*)'$", re.S)),
    ('recto',   re.compile(r'^\[(\d+):(\d+)\] PARSE: Recovering to state (\d+)$')),
    ('consume', re.compile(r'^\[(\d+):(\d+)\] PARSE: Recovery, consuming term (.*) $', re.S)),
    ('msg',     re.compile(r'^\[(\d+):(\d+)\] PARSE: (Entering recovery mode|Leaving recovery mode|Entering consume mode|'
                           r'Leaving consume mode|Could not recover from error|Success|R/R conflict encountered) $')),
    ('lexrec',  re.compile(r'^\[(\d+):(\d+)\] REGEX MATCH: Recognized (\d+)$')),
    ('lexchar', re.compile(r'^\[(\d+):(\d+)\] REGEX MATCH: Current char (.*)$', re.S)),
    ('lexstate', re.compile(r'^\[(\d+):(\d+)\] REGEX MATCH: New state (\d+)$')),
    ('clexrec', re.compile(r'^\[(\d+):(\d+)\] LEXER MATCH: Recognized (\d+) $')),
]


def b(s):
    """text of a line (latin-1 decoded by the JSON layer) -> list of byte values"""
    return [ord(c) for c in s]


def classify(text):
    for kind, rx in RX:
        m = rx.match(text)
        if not m:
            continue
        g = m.groups()
        l, c = int(g[0]), int(g[1])
        if kind in ('rec', 'synerr', 'consume'):
            return [kind, l, c, g[2]]
        if kind == 'unexp':
            return [kind, l, c, ord(g[2])]
        if kind == 'shift':
            return [kind, l, c, int(g[2]), b(g[3])]
        if kind == 'reduce':
            return [kind, l, c, int(g[2]), g[3]]
        if kind in ('goto', 'recto'):
            return [kind, l, c, int(g[2])]
        if kind == 'msg':
            return [kind, l, c, g[2]]
        if kind in ('lexrec', 'lexstate', 'clexrec'):
            return [kind, l, c, int(g[2])]
        if kind == 'lexchar':
            return [kind, l, c, g[2]]
    return ['unknown', text]


def flatten_tree(t, out):
    if t is None:
        return -1
    tid, k, sym, off, ln, line, col, ch = t
    ids = [flatten_tree(c, out) if c is not None else -2 for c in ch]
    out.append([tid, k, sym, off, ln, line, col, ids])
    return tid


VKINDS = ('v_new', 'v_copy', 'v_move', 'v_cassign', 'v_massign', 'v_take', 'v_dtor')


def values_item(rec):
    """projection of a tracked trace onto the value-lifecycle events (input of TraceValues.tla)"""
    return {'id': rec['id'], 'ok': rec['ok'], 'events': [[e[0], e[1], e[2]] for e in rec['events'] if e[0] in VKINDS]}


def convert(rec, gindex, keep_lex=False):
    """rec: one trace record from the harness; gindex: 1-based index of its grammar in this TLC run."""
    evs = []
    nlex = 0
    for e in rec['events']:
        if e[0] in VKINDS:
            continue
        if e[0] == 'L':
            c = classify(e[1])
            if c[0] in ('lexrec', 'lexchar', 'lexstate', 'clexrec') and not keep_lex:
                nlex += 1
                continue
            evs.append(c)
        elif e[0] == 'tval':
            evs.append(['tval', e[1], e[2], e[3], e[4]])
        elif e[0] == 'call':          # harness: [call, rule, id, lvalue-args, ids, lines, cols]
            evs.append(['call', e[1], e[2], e[4], e[5], e[6], e[3]])
        elif e[0] == 'ccall':         # [ccall, rule, id, same, const, lvalue-args, ids, lines, cols]
            evs.append(['ccall', e[1], e[2], e[6], e[7], e[8], e[3], e[4], e[5]])
        elif e[0] == 'dcall':         # [dcall, id, lvalue-args, ids, lines, cols]
            evs.append(['dcall', e[1], e[3], e[4], e[5], e[2]])
        else:
            evs.append(list(e))
    flat = []
    root = flatten_tree(rec.get('tree'), flat)
    flat.sort()
    return {
        'id': rec['id'], 'g': gindex, 'bytes': rec['bytes'],
        'v': bool(rec['verbose']), 'ws': bool(rec['ws']), 'nl': bool(rec['nl']),
        'sk': rec['stream'], 'cat': rec.get('ctx', 0), 'ctxmut': rec.get('ctxmut', 0), 'ok': rec['ok'], 'threw': rec.get('threw', ''), 'partial': rec.get('partial', ''),
        'events': evs, 'root': root, 'tree': flat, 'nlex': nlex, 'lexl': bool(keep_lex),
    }
