"""Orchestrator library: building the harness from /repo's working tree, running TLC, evidence, verdict discipline."""
import os, sys, json, re, subprocess, hashlib, time, shutil, glob, random

ROOT = os.path.dirname(os.path.dirname(os.path.abspath(__file__)))
REPO = os.environ.get('VERIF_REPO', '/repo')
BUILD = os.path.join(ROOT, 'build')
SPEC = os.path.join(ROOT, 'spec')
HARNESS = os.path.join(ROOT, 'harness')
HEADER = os.path.join(REPO, 'include', 'ctpg', 'ctpg.hpp')
REPLAYS = os.path.join(ROOT, 'replays')
NCPU = os.cpu_count() or 4


class Infra(Exception):
    """infrastructure failure: exit 2, never a VIOLATION"""


def sha(*parts):
    h = hashlib.sha256()
    for p in parts:
        h.update(p if isinstance(p, bytes) else p.encode())
    return h.hexdigest()[:16]


def file_bytes(p):
    with open(p, 'rb') as f:
        return f.read()


def header_hash():
    return sha(file_bytes(HEADER))


def ensure_dirs():
    for d in (BUILD, REPLAYS, os.path.join(ROOT, 'evidence')):
        os.makedirs(d, exist_ok=True)


# ---------------------------------------------------------------- compiling harness binaries
def build_binary(name, src, flags=(), cxx='g++', opt='-O1', extra_deps=()):
    """Compiles src (in HARNESS or absolute) against REPO's header with the hooks on; cached by content hash."""
    ensure_dirs()
    srcp = src if os.path.isabs(src) else os.path.join(HARNESS, src)
    deps = [srcp, os.path.join(HARNESS, 'rt.hpp'), HEADER] + list(extra_deps)
    key = sha(*[file_bytes(d) for d in deps], ' '.join(flags), cxx, opt)
    out = os.path.join(BUILD, 'bin', '%s-%s' % (name, key))
    if os.path.exists(out):
        return out
    os.makedirs(os.path.dirname(out), exist_ok=True)
    # other versions of this binary may be in use by a concurrent run (another header under VERIF_REPO): prune by age only
    for old in glob.glob(os.path.join(BUILD, 'bin', name + '-*')):
        try:
            if time.time() - os.path.getmtime(old) > 3 * 3600:
                os.remove(old)
        except OSError:
            pass
    cmd = [cxx, '-std=c++17', opt, '-DCTPG_VERIF', '-I' + os.path.join(REPO, 'include'), '-I' + HARNESS] + list(flags) + [srcp, '-o', out + '.tmp', '-pthread']
    r = subprocess.run(cmd, capture_output=True, text=True)
    if r.returncode != 0:
        raise Infra('compile failed: %s\n%s' % (' '.join(cmd), r.stderr[-4000:]))
    os.replace(out + '.tmp', out)
    return out


def build_many(specs):
    """specs: list of (name, src, flags[, cxx, opt]); compiled in parallel. Returns {name: path}."""
    from concurrent.futures import ThreadPoolExecutor
    res = {}
    with ThreadPoolExecutor(max_workers=NCPU) as ex:
        futs = {s[0]: ex.submit(build_binary, *s) for s in specs}
        for k, f in futs.items():
            res[k] = f.result()
    return res


# ---------------------------------------------------------------- TLC
_linted = False


class TlcResult:
    def __init__(self):
        self.generated = 0
        self.distinct = 0
        self.exit = None
        self.out = ''
        self.lines = {}        # tag -> list of parsed JSON payloads printed by the spec (REJECT, DISAGREE, ...)
        self.errors = []
        self.precompute = 0
        self.coverage = {}
        self.wall = 0.0
        self.depth = 0


TAG_RX = re.compile(r'^<<"([A-Z_]+)", "(.*)">>$')


def _unescape_tla(s):
    # TLC prints strings with \" and \\ escaped
    return s.replace('\\"', '"').replace('\\\\', '\\')


def run_tlc(module, cfg, env, name, workers=8, timeout=600, simulate=None, heap='5g', coverage=False):
    """Runs TLC; a StackOverflowError inside TLC (frame sizes depend on JIT timing) is retried, never a verdict."""
    global _linted
    if not _linted:
        r = subprocess.run([sys.executable, os.path.join(ROOT, 'tools', 'lint_names.py')], capture_output=True, text=True)
        if r.returncode != 0:
            raise Infra('spec lint failed (a library identifier equals a state variable name: TLC would silently stop caching constants):\n' + r.stdout[-1500:])
        _linted = True
    last = None
    for attempt in range(3):
        r = _run_tlc(module, cfg, env, name, workers, timeout, simulate, heap, coverage)
        if 'StackOverflowError' not in r.out:
            return r
        last = r
    raise Infra('TLC StackOverflowError (3 attempts) on %s/%s:\n%s' % (module, name, last.out[-2000:]))


TLC_SLOTS = 9        # JVMs running at once ON THIS MACHINE, across all check processes (each may grow to its -Xmx)


class _TlcSlot:
    """cross-process counting semaphore made of lock files: several checks (self-test, seeded changes, thorough tiers)
    may run side by side; together they must not exhaust the memory"""

    def __enter__(self):
        import fcntl
        d = os.path.join(os.environ.get('TMPDIR', '/tmp'), 'verif_tlc_slots')       # machine-wide (created on demand): copies of /verif share it
        os.makedirs(d, exist_ok=True)
        while True:
            for i in range(TLC_SLOTS):
                f = open(os.path.join(d, 'tlc.%d' % i), 'w')
                try:
                    fcntl.flock(f, fcntl.LOCK_EX | fcntl.LOCK_NB)
                    self.f = f
                    return self
                except OSError:
                    f.close()
            time.sleep(0.2)

    def __exit__(self, *a):
        import fcntl
        fcntl.flock(self.f, fcntl.LOCK_UN)
        self.f.close()


def _run_tlc(module, cfg, env, name, workers=8, timeout=600, simulate=None, heap='5g', coverage=False):
    with _TlcSlot():
        return _run_tlc_locked(module, cfg, env, name, workers, timeout, simulate, heap, coverage)


def _run_tlc_locked(module, cfg, env, name, workers=8, timeout=600, simulate=None, heap='5g', coverage=False):
    """Runs TLC on spec/<module>.tla with spec/<cfg>; returns TlcResult.  Raises Infra on tool failures."""
    ensure_dirs()
    meta = os.path.join(BUILD, 'tlc', str(os.getpid()), name)
    shutil.rmtree(meta, ignore_errors=True)
    os.makedirs(meta, exist_ok=True)
    e = dict(os.environ)
    e.update({k: str(v) for k, v in env.items()})
    e['JAVA_TOOL_OPTIONS'] = '-Xss64m'
    # -Xss must be on the command line: the launcher sizes the MAIN thread (which evaluates the cached constants and the
    # initial states) before JAVA_TOOL_OPTIONS is read; with the default 1 MB the recursive operators overflow, flakily
    cmd = ['java', '-Xss512m', '-XX:+UseParallelGC', '-Xmx' + heap, '-cp',
           '/opt/veriftools/tla/tla2tools.jar:/opt/veriftools/tla/CommunityModules-deps.jar', 'tlc2.TLC',
           '-workers', str(workers), '-metadir', meta, '-config', cfg, '-noGenerateSpecTE']
    if coverage:
        cmd += ['-coverage', '1']
    if simulate:
        cmd += ['-simulate', simulate]
    cmd += [module + '.tla']
    t0 = time.time()
    try:
        r = subprocess.run(cmd, cwd=SPEC, env=e, capture_output=True, text=True, timeout=timeout)
    except subprocess.TimeoutExpired:
        shutil.rmtree(meta, ignore_errors=True)
        raise Infra('TLC timeout after %ds: %s %s' % (timeout, module, name))
    res = TlcResult()
    res.wall = time.time() - t0
    res.exit = r.returncode
    res.out = r.stdout + r.stderr
    for line in r.stdout.splitlines():
        if line == '"PRECOMPUTE"':
            res.precompute += 1
            continue
        m = TAG_RX.match(line)
        if m:
            try:
                res.lines.setdefault(m.group(1), []).append(json.loads(_unescape_tla(m.group(2))))
            except Exception:
                res.errors.append('unparsable tagged line: ' + line[:300])
            continue
        m = re.match(r'^(\d+) states generated, (\d+) distinct states found', line)
        if m:
            res.generated, res.distinct = int(m.group(1)), int(m.group(2))
        m = re.match(r'^The depth of the complete state graph search is (\d+)', line)
        if m:
            res.depth = int(m.group(1))
        if line.startswith('Error:') or 'Exception' in line and 'at ' not in line[:4]:
            res.errors.append(line[:500])
        m = re.match(r'^<(\w+) line \d+, col \d+ to line \d+, col \d+ of module (\w+)>: (\d+):(\d+)', line)
        if m:
            res.coverage[m.group(2) + '!' + m.group(1)] = [int(m.group(3)), int(m.group(4))]
    shutil.rmtree(meta, ignore_errors=True)
    # exit codes: 0 ok, 12 safety violation, 13 liveness, 10/11 assumption/deadlock; others = tool failure
    if res.exit not in (0, 10, 11, 12, 13) and 'StackOverflowError' not in res.out:
        raise Infra('TLC failed (exit %s) on %s/%s:\n%s' % (res.exit, module, name, res.out[-3000:]))
    if res.precompute > max(workers, 1) and 'StackOverflowError' not in res.out:
        raise Infra('constant caching lost in %s/%s: PRECOMPUTE printed %d times' % (module, name, res.precompute))
    if res.generated == 0 and not simulate and 'StackOverflowError' not in res.out:
        raise Infra('TLC produced no states on %s/%s:\n%s' % (module, name, res.out[-3000:]))
    return res


def run_parallel(tasks, max_par=None):
    """tasks: list of zero-arg callables; returns results in order (exceptions re-raised)."""
    from concurrent.futures import ThreadPoolExecutor
    with ThreadPoolExecutor(max_workers=max_par or NCPU) as ex:
        futs = [ex.submit(t) for t in tasks]
        return [f.result() for f in futs]


# ---------------------------------------------------------------- evidence / verdicts
def write_ndjson(path, objs):
    with open(path, 'w') as f:
        for o in objs:
            f.write(json.dumps(o) + '\n')


def read_ndjson(path):
    res = []
    with open(path) as f:
        for line in f:
            line = line.strip()
            if line:
                res.append(json.loads(line))
    return res


def read_ndjson_lenient(path):
    res = []
    if not os.path.exists(path):
        return res
    with open(path, errors='replace') as f:
        for line in f:
            line = line.strip()
            if not line:
                continue
            try:
                res.append(json.loads(line))
            except ValueError:
                pass      # truncated last line of a crashed run
    return res


def write_evidence(pid, tier, seed, coverage, assumptions, wall, violations, level='model_checking'):
    ensure_dirs()
    ev = {'property_id': pid, 'tier': tier, 'seed': int(seed), 'level': level, 'coverage': coverage,
          'assumptions': assumptions, 'wall_s': round(wall, 2), 'violations': int(violations)}
    # runs against a scratch copy of the repository (self-test, seeded changes) must not overwrite the real evidence
    edir = os.path.join(ROOT, 'evidence') if os.path.realpath(REPO) == '/repo' else os.path.join(BUILD, 'evidence_scratch')
    os.makedirs(edir, exist_ok=True)
    p = os.path.join(edir, pid + '.json')
    with open(p + '.tmp', 'w') as f:
        json.dump(ev, f, indent=1)
    os.replace(p + '.tmp', p)
    return p


def save_replay(pid, obj):
    ensure_dirs()
    key = sha(json.dumps(obj, sort_keys=True))
    p = os.path.join(REPLAYS, '%s-%s.json' % (pid, key))
    with open(p, 'w') as f:
        json.dump(obj, f, indent=1)
    return p


def load_known():
    p = os.path.join(ROOT, 'known_findings.json')
    if not os.path.exists(p):
        return {'known': [], 'fixed': []}
    return json.load(open(p))


_registered = False


def _cleanup():
    shutil.rmtree(os.path.join(BUILD, 'work', str(os.getpid())), ignore_errors=True)
    shutil.rmtree(os.path.join(BUILD, 'tlc', str(os.getpid())), ignore_errors=True)


def scratch(name):
    """per-process scratch directory (concurrent checks - self-test, seeds, vp runs - must not share one); removed at exit
    unless VERIF_KEEP is set"""
    global _registered
    if not _registered and not os.environ.get('VERIF_KEEP'):
        import atexit
        atexit.register(_cleanup)
        _registered = True
        # directories left behind by runs that were killed (OOM, timeout): their process is gone
        wd = os.path.join(BUILD, 'work')
        for n in (os.listdir(wd) if os.path.isdir(wd) else []):
            if n.isdigit() and not os.path.exists('/proc/' + n):
                shutil.rmtree(os.path.join(wd, n), ignore_errors=True)
    d = os.path.join(BUILD, 'work', str(os.getpid()), name)
    shutil.rmtree(d, ignore_errors=True)
    os.makedirs(d, exist_ok=True)
    return d
