"""spec/Options.tla -> chains of setter calls on parse_options / match_options (TLC) -> one translation unit executing every
chain on the real objects (constant evaluation and run time) and parsing / matching with the resulting object: the
switches must be what the specification says after every step, and the parse must behave as they say."""
import os, json, re, subprocess
import vlib
from vlib import Infra

M32 = 0xffffffff
SETTER = {'verbose': 'set_verbose', 'ws': 'set_skip_whitespace', 'nl': 'set_skip_newline'}
ARG = {'t': 'true', 'f': 'false', 'd': ''}


def _cfg(work, maxops):
    p = os.path.join(work, 'Options.cfg')
    with open(p, 'w') as f:
        f.write('SPECIFICATION Spec\nCONSTANTS\n  MaxOps = %d\nINVARIANTS\n  TypeOK\n  Local\n  LastWins\n  CaseReported\nCHECK_DEADLOCK FALSE\n' % maxops)
    return p


def expected_hash(chain):
    h = 17
    for st in chain:
        a = st['after']
        h = (h * 31 + (1 if a['verbose'] else 0) + (2 if a['ws'] else 0) + (4 if a['nl'] else 0)) & M32
        h = (h * 31 + 1) & M32          # the setter returned the object itself
    return h


def tu(cases):
    o = ['#include <ctpg/ctpg.hpp>', '#include <cstdio>', '#include <sstream>', 'using namespace ctpg; using namespace ctpg::buffers;',
         'constexpr nterm<int> lst("lst"); constexpr char_term ta(\'a\');',
         'constexpr parser prs(lst, terms(ta), nterms(lst), rules(lst(ta) >= [](auto) { return 1; }, lst(lst, ta) >= [](int n, auto) { return n + 1; }));',
         'constexpr char pat[] = "ab"; constexpr regex::expr<pat> rx;',
         'template<size_t N> constexpr int pv(const parse_options& o, const char (&s)[N]) { utils::no_stream ns; auto r = prs.parse(o, cstring_buffer(s), ns); return r.has_value() ? r.value() : -1; }',
         'constexpr unsigned fold(unsigned h, const parse_options& o, bool same) { h = h * 31u + (o.verbose ? 1u : 0u) + (o.skip_whitespace ? 2u : 0u) + (o.skip_newline ? 4u : 0u); return h * 31u + (same ? 1u : 0u); }',
         'constexpr unsigned foldm(unsigned h, const match_options& o, bool same) { h = h * 31u + (o.verbose ? 1u : 0u) + 2u + 4u; return h * 31u + (same ? 1u : 0u); }']
    for i, c in enumerate(cases):
        T = 'parse_options' if c['kind'] == 'parse' else 'match_options'
        F = 'fold' if c['kind'] == 'parse' else 'foldm'
        calls = ['%s(%s)' % (SETTER[s['s']], ARG[s['a']]) for s in c['chain']]
        # step by step on a named object
        o.append('constexpr unsigned w%d(%s& o) { unsigned h = 17u; %s return h; }' % (
            i, T, ' '.join('{ %s& r = o.%s; h = %s(h, o, &r == &o); }' % (T, cl, F) for cl in calls)))
        o.append('constexpr %s m%d() { %s o; w%d(o); return o; }' % (T, i, T, i))
        o.append('constexpr unsigned h%d() { %s o; return w%d(o); }' % (i, T, i))
        # the chained spelling on a temporary
        o.append('constexpr %s c%d() { return %s{}%s; }' % (T, i, T, ''.join('.' + cl for cl in calls)))
        sw = c['sw']
        o.append('#ifndef VERIF_RUNTIME_ONLY')
        o.append('static_assert(h%d() == %du, "OW%d");' % (i, c['h'], i))
        o.append('static_assert(c%d().verbose == %s, "OW%d");' % (i, 'true' if sw['verbose'] else 'false', i))
        if c['kind'] == 'parse':
            o.append('static_assert(c%d().skip_whitespace == %s && c%d().skip_newline == %s, "OW%d");' % (i, 'true' if sw['ws'] else 'false', i, 'true' if sw['nl'] else 'false', i))
            o.append('static_assert(pv(m%d(), "a a") == %d, "OW%d");' % (i, 2 if c['eff']['blank'] else -1, i))
            o.append('static_assert(pv(c%d(), "a\\na") == %d, "OW%d");' % (i, 2 if c['eff']['newline'] else -1, i))
            o.append('static_assert(pv(m%d(), "aa") == 2, "OW%d");' % (i, i))
        o.append('#endif')
    o.append('int main() { int bad = 0;')
    o.append('  auto chk = [&](int i, const char* how, long got, long want) { if (got != want) { printf("OPTBAD %d %s %ld %ld\\n", i, how, got, want); ++bad; } };')
    for i, c in enumerate(cases):
        sw, eff = c['sw'], c['eff']
        o.append('  { auto o = m%d(); auto q = c%d(); chk(%d, "steps", h%d(), %du); chk(%d, "verbose", o.verbose, %d); chk(%d, "chained.verbose", q.verbose, %d);' % (i, i, i, i, c['h'], i, sw['verbose'], i, sw['verbose']))
        if c['kind'] == 'parse':
            o.append('    chk(%d, "ws", o.skip_whitespace, %d); chk(%d, "nl", o.skip_newline, %d); chk(%d, "chained.ws", q.skip_whitespace, %d); chk(%d, "chained.nl", q.skip_newline, %d);' % (
                i, sw['ws'], i, sw['nl'], i, sw['ws'], i, sw['nl']))
            o.append('    { std::stringstream ss; auto r = prs.parse(o, string_buffer("a a"), ss); chk(%d, "blank", r.has_value(), %d); }' % (i, eff['blank']))
            o.append('    { std::stringstream ss; auto r = prs.parse(q, string_buffer("a\\na"), ss); chk(%d, "newline", r.has_value(), %d); }' % (i, eff['newline']))
            o.append('    { std::stringstream ss; auto r = prs.parse(o, string_buffer("aa"), ss); chk(%d, "plain", r.has_value() && r.value() == 2, 1); chk(%d, "lines", !ss.str().empty(), %d); }' % (i, i, eff['lines']))
        else:
            o.append('    { std::stringstream ss; bool r = rx.match(o, string_buffer("ab"), ss); chk(%d, "match", r, 1); chk(%d, "lines", !ss.str().empty(), %d); }' % (i, i, eff['lines']))
            o.append('    { std::stringstream ss; bool r = rx.match(q, string_buffer("abb"), ss); chk(%d, "nomatch", r, 0); }' % i)
        o.append('  }')
    o.append('  printf("OPTDONE %d\\n", bad); return 0; }')
    return '\n'.join(o) + '\n'


def run(tier='quick', workname='options'):
    work = vlib.scratch(workname)
    maxops = 2 if tier == 'quick' else 3
    r = vlib.run_tlc('Options', _cfg(work, maxops), {}, workname, workers=2, timeout=600)
    if r.exit != 0 or r.errors:
        raise Infra('Options.tla failed: %s\n%s' % (r.errors[:3], r.out[-1500:]))
    allc = {}
    for d in r.lines.get('OPTCASE', []):
        allc[(d['kind'], tuple((s['s'], s['a']) for s in d['chain']))] = d
    cases = []
    for (kind, ch), d in sorted(allc.items()):
        if 0 < len(ch) < maxops:
            continue            # maximal chains (every shorter chain is a prefix, checked step by step inside), and the empty chain: the defaults
        cases.append({'kind': kind, 'chain': d['chain'], 'sw': {k: int(bool(v)) for k, v in d['sw'].items()}, 'h': expected_hash(d['chain']),
                      'eff': {k: int(bool(v)) for k, v in d['eff'].items()}})
    src = os.path.join(work, 'options_chains.cpp')
    with open(src, 'w') as f:
        f.write(tu(cases))
    inc = os.path.join(vlib.REPO, 'include')
    jobs = [('g++', ['g++', '-std=c++17', '-fsyntax-only', '-fconstexpr-ops-limit=1000000000', '-I' + inc, src]),
            ('clang++', ['clang++', '-std=c++17', '-fsyntax-only', '-fconstexpr-steps=1000000000', '-I' + inc, src]),
            ('build', ['g++', '-std=c++17', '-O1', '-DVERIF_RUNTIME_ONLY', '-I' + inc, src, '-o', src[:-4]])]
    rs = vlib.run_parallel([(lambda c=c: subprocess.run(c, capture_output=True, text=True, timeout=1800)) for _, c in jobs])
    problems = []
    for (kind, _), rr in zip(jobs, rs):
        if rr.returncode != 0:
            bad = sorted(set(int(x) for x in re.findall(r'OW(\d+)', rr.stderr)))
            ex = cases[bad[0]] if bad else None
            problems.append({'class': 'option objects: %s' % ('the run-time unit does not compile' if kind == 'build' else 'a chain of setters, or a parse with its result, fails or differs in constant evaluation (%s)' % kind),
                             'object': ex and ex['kind'] + '_options', 'chain': ex and ['%s(%s)' % (SETTER[s['s']], ARG[s['a']]) for s in ex['chain']], 'compiler_says': rr.stderr[:600]})
    nrt = 0
    if rs[2].returncode == 0:
        rr = subprocess.run([src[:-4]], capture_output=True, text=True, timeout=300)
        if 'OPTDONE' not in rr.stdout:
            problems.append({'class': 'option objects: the run-time chains died', 'exit': rr.returncode, 'stderr': rr.stderr[-300:]})
        for ln in rr.stdout.splitlines():
            p = ln.split()
            if p and p[0] == 'OPTBAD':
                c = cases[int(p[1])]
                problems.append({'class': 'option objects: after a chain of setters %s is not what the switches say' % p[2], 'object': c['kind'] + '_options',
                                 'chain': ['%s(%s)' % (SETTER[s['s']], ARG[s['a']]) for s in c['chain']], 'got': p[3], 'expected': p[4]})
        nrt = len(cases)
    stats = {'chains': len(cases), 'max_setter_calls': maxops, 'static_asserts_per_compiler': sum(6 if c['kind'] == 'parse' else 2 for c in cases), 'run_time_chains': nrt, 'distinct_states': r.distinct}
    return problems[:6], stats, r


if __name__ == '__main__':
    p, s, _ = run()
    print(json.dumps(s))
    for x in p:
        print(json.dumps(x)[:900])
