"""One 'parser run': a set of grammar entries with inputs, pushed through the real library and the three TLC checks.
Properties interpret its result."""
import os, json, time, collections
import vlib, pipeline
from vlib import Infra


class Result:
    def __init__(self):
        self.states = 0
        self.transitions = 0
        self.traces = 0
        self.rejects = collections.defaultdict(list)     # gid -> [reject payload + trace record]
        self.disagree = collections.defaultdict(list)    # gid -> [payload]
        self.early = collections.defaultdict(list)
        self.static = {}                                 # gid -> payload
        self.caps = {}
        self.capsok = {}
        self.conflicts = {}                              # gid -> {n, rr, states}
        self.design_timeouts = []
        self.design_errors = []                          # TLC errors of the spec-only model (spec bug or oracle bug)
        self.verdicts = {}                               # (gid, bytes tuple, ws, nl) -> payload
        self.event_kinds = collections.Counter()
        self.tlc_runs = []
        self.crashed = []
        self.construct_threw = {}
        self.wall = {}


def _soft(f):
    try:
        return f()
    except Infra as e:
        if 'TLC timeout' in str(e):
            return None
        raise


def run(entries, workname, design_L=None, design_ws=(), product_depth=8, do_product=True, do_traces=True,
        tlc_procs=4, tlc_workers=4, timeout=1500, witness_jobs=True, keep_lex=False, env=None, design_only=None, design_invs=None):
    res = Result()
    t0 = time.time()
    work = pipeline.run_harness(entries, workname, env)
    res.wall['harness'] = time.time() - t0
    for e in entries:
        if e.construct_threw is not None:
            res.construct_threw[e.gid] = e.construct_threw
        if e.crashed is not None:
            res.crashed.append((e.gid, e.crashed))
    live = [e for e in entries if e.dump is not None]
    by_gid = {e.gid: e for e in entries}

    tasks = []
    # ---- product (B)
    if do_product and live:
        for ci, part in enumerate(pipeline.chunks(live, tlc_procs)):
            env, _ = pipeline.tlc_inputs(part, work, 'prod%d' % ci, with_traces=False)
            cfg = pipeline.write_cfg(work, 'prod%d' % ci, 'Spec', ['Reported', 'EarlyReported', 'StaticReported', 'ConflictsReported', 'CapsReported'],
                                     {'DEPTH': product_depth, 'FUEL': 60}, view='vw')
            tasks.append(('product', part, (lambda env=env, cfg=cfg, ci=ci: vlib.run_tlc('ProductTable', cfg, env, '%s_prod%d' % (workname, ci), workers=tlc_workers, timeout=timeout))))
    # ---- design (A): spec alone on its own table against the derivation oracles
    if design_L is not None and live:
        seen = set()
        dl = []
        for e in live:
            if design_only is not None and e.gid not in design_only:
                continue
            if len(e.tla.get('alpha', [])) > 12:
                continue      # (all inputs <= L over dozens of terms: out of reach, and nothing the smaller grammars do not show)
            if hasattr(e, 'lexterms'):
                continue      # token-list grammars over term sets: their design alphabet contains no term bytes (and the
                              # language oracle over 10+ terminals is exponential in L); the lexer has its own model (LexCheck)
            key = json.dumps(e.tla['rules']) + json.dumps(e.tla['tprec']) + json.dumps(e.tla['tassoc']) + json.dumps(e.tla['tbytes'])
            if key not in seen:
                seen.add(key)
                dl.append(e)
        # many small runs rather than few large ones: the pool balances them, and one expensive grammar cannot starve the rest
        nchunks = max(tlc_procs, (len(dl) + 11) // 12)
        for ci, part in enumerate(pipeline.chunks(dl, nchunks)):
            env, _ = pipeline.tlc_inputs(part, work, 'design%d' % ci, with_traces=False)
            env.pop('VERIF_DUMPS', None)
            cfg = pipeline.write_cfg(work, 'design%d' % ci, 'Spec',
                                     design_invs or ['Safe', 'AcceptsExactlyTheLanguage', 'ResultIsDerivationTree', 'ReportedOnceAtTheRightPlace', 'PrecedenceShapesTheTree', 'TokensDroppedOnlyUnderError'],
                                     {'L': design_L, 'WSBYTES': pipeline.tla_set(design_ws)})
            tasks.append(('design', part, (lambda env=env, cfg=cfg, ci=ci: _soft(lambda: vlib.run_tlc('MCDriver', cfg, env, '%s_design%d' % (workname, ci), workers=tlc_workers, timeout=timeout)))))
    t1 = time.time()
    outs = vlib.run_parallel([t[2] for t in tasks], max_par=tlc_procs * 2)
    res.wall['tlc1'] = time.time() - t1
    witnesses = collections.defaultdict(list)
    for (kind, part, _), r in zip(tasks, outs):
        if r is None:
            # a spec-only run that did not finish within its budget: no verdict from it (the specification is checked against
            # its own oracles there, nothing about the implementation), recorded in the evidence
            res.design_timeouts.append([e.gid for e in part])
            res.tlc_runs.append({'kind': kind, 'grammars': len(part), 'timed_out_after_s': timeout})
            continue
        res.states += r.distinct
        res.transitions += r.generated
        res.tlc_runs.append({'kind': kind, 'grammars': len(part), 'distinct': r.distinct, 'generated': r.generated, 'wall_s': round(r.wall, 1), 'exit': r.exit})
        if kind == 'product':
            for d in r.lines.get('DISAGREE', []):
                res.disagree[d['g']].append(d)
            for d in r.lines.get('EARLY', []):
                res.early[d['g']].append(d)
            for d in r.lines.get('STATIC', []):
                res.static[d['g']] = d
            for d in r.lines.get('CONFLICTS', []):
                res.conflicts[d['g']] = d
            for d in r.lines.get('CAPS', []):
                res.caps[d['g']] = d
            for d in r.lines.get('CAPSOK', []):
                res.capsok[d['g']] = d
            if r.exit != 0 or r.errors:
                raise Infra('ProductTable run failed: %s\n%s' % (r.errors[:3], r.out[-2000:]))
        else:
            if r.exit != 0 or r.errors:
                res.design_errors.append({'grammars': [e.gid for e in part], 'errors': r.errors[:5], 'tail': r.out[-3000:]})
    # ---- execute product witnesses on the real parser (second harness pass), then validate all traces (C)
    if witness_jobs and res.disagree:
        extra = []
        for gid, ds in res.disagree.items():
            e = by_gid[gid]
            tb = e.tla['tbytes']
            seen = set()
            for d in sorted(ds, key=lambda d: len(d['w']))[:5]:
                toks = [t for t in d['w'] if t - 100 < len(tb)]
                b = tuple(tb[t - 100] for t in toks)
                if b in seen:
                    continue
                seen.add(b)
                import copy
                ne = copy.copy(e)            # same kind of translation unit (custom lexer, term set, functor-less rules, ...)
                ne.traces, ne.dump, ne.diag = [], None, None
                ne.jobs = [('%s:w%d' % (gid, len(seen)), 0, 0, 1, 1, 1, list(b))]
                extra.append(ne)
        # entries with the same gid must run in one go: merge job lists per gid
        merged = {}
        for ne in extra:
            if ne.gid in merged:
                merged[ne.gid].jobs += ne.jobs
            else:
                merged[ne.gid] = ne
        if merged:
            pipeline.run_harness(list(merged.values()), workname + '_wit')
            for gid, ne in merged.items():
                by_gid[gid].traces += ne.traces
                by_gid[gid].jobs += ne.jobs
    if do_traces and live:
        tasks = []
        withtr = [e for e in live if e.traces]
        # balance chunks by number of traces
        withtr.sort(key=lambda e: -len(e.traces))
        parts = [[] for _ in range(min(tlc_procs, len(withtr)) or 1)]
        loads = [0] * len(parts)
        for e in withtr:
            i = loads.index(min(loads))
            parts[i].append(e)
            loads[i] += len(e.traces)
        for ci, part in enumerate(parts):
            if not part:
                continue
            env, ntr = pipeline.tlc_inputs(part, work, 'trace%d' % ci, with_traces=True, keep_lex=keep_lex)
            res.traces += ntr
            cfg = pipeline.write_cfg(work, 'trace%d' % ci, 'Spec', ['RejectionsReported', 'Progress', 'Safe'])
            tasks.append((part, (lambda env=env, cfg=cfg, ci=ci: vlib.run_tlc('TraceDriver', cfg, env, '%s_trace%d' % (workname, ci), workers=tlc_workers, timeout=timeout))))
        t2 = time.time()
        outs = vlib.run_parallel([t[1] for t in tasks], max_par=tlc_procs * 2)
        res.wall['tlc2'] = time.time() - t2
        for (part, _), r in zip(tasks, outs):
            res.states += r.distinct
            res.transitions += r.generated
            res.tlc_runs.append({'kind': 'traces', 'grammars': len(part), 'distinct': r.distinct, 'generated': r.generated, 'wall_s': round(r.wall, 1), 'exit': r.exit})
            if r.exit != 0 or r.errors:
                raise Infra('TraceDriver run failed (Progress/Safe or tool error): %s\n%s' % (r.errors[:3], r.out[-3000:]))
            tr_by_id = {}
            for e in part:
                for t in e.traces:
                    tr_by_id[t['id']] = t
            for d in r.lines.get('REJECT', []):
                d['trace'] = tr_by_id.get(d['id'])
                res.rejects[d['g']].append(d)
        # what the validated executions consist of: observer events by kind, printed lines by the specification action
        # they correspond to (one action of Driver.tla per line pattern / message text)
        import traces as tl
        for e in withtr:
            for t in e.traces:
                for ev in t['events']:
                    if ev[0] != 'L':
                        res.event_kinds[ev[0]] += 1
                        continue
                    res.event_kinds['line'] += 1
                    c = tl.classify(ev[1])
                    res.event_kinds['line:' + (c[0] if c[0] != 'msg' else c[3].strip())] += 1
    return res, work


def spec_verdicts(entries, inputs, workname, tlc_workers=4, timeout=900):
    """inputs: list of (gid, bytes, ws, nl).  Runs the specification alone (own table) and returns
    {(gid, bytes, ws, nl): payload} - the expected behaviour generated by TLC."""
    work = vlib.scratch(workname)
    gids = [e.gid for e in entries]
    env, _ = pipeline.tlc_inputs(entries, work, 'given', with_traces=False)
    env.pop('VERIF_DUMPS', None)
    gp = os.path.join(work, 'given.ndjson')
    vlib.write_ndjson(gp, [{'g': gids.index(g) + 1, 'bytes': list(b), 'ws': bool(ws), 'nl': bool(nl)} for (g, b, ws, nl) in inputs])
    env['VERIF_GIVEN'] = gp
    cfg = pipeline.write_cfg(work, 'given', 'SpecGiven', ['VerdictReported', 'Safe'], {'L': 1, 'WSBYTES': '{}'})
    r = vlib.run_tlc('MCDriver', cfg, env, workname + '_given', workers=tlc_workers, timeout=timeout)
    if r.exit != 0 or r.errors:
        raise Infra('MCDriver(given) failed: %s\n%s' % (r.errors[:3], r.out[-2000:]))
    out = {}
    for d in r.lines.get('VERDICT', []):
        out[(gids[d['g'] - 1], tuple(d['bytes']), d['ws'], d['nl'])] = d
    return out, r
