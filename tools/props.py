"""Per-property checks.  Each returns an Outcome; `check` prints the verdict lines and writes the evidence."""
import os, sys, json, random, itertools, collections, time
import vlib, gram, gengram, pipeline, prun
from vlib import Infra

CATALOGUE = os.path.join(vlib.ROOT, 'corpus', 'grammars.txt')


class Outcome:
    def __init__(self):
        self.violations = []      # dicts with 'summary' (+ whatever the replay needs)
        self.known = []           # strings
        self.notes = []
        self.coverage = {}
        self.assumptions = []


_catalogue = None


def catalogue(tag=None):
    global _catalogue
    if _catalogue is None:
        _catalogue = gram.parse_catalogue(CATALOGUE)
    return [g for g in _catalogue if tag is None or tag in g.tags]


def entries_for(g, hosts=(0, 2), gen=True):
    es = []
    if gen:
        es.append(pipeline.gen_entry(g))
    for v in hosts:
        if g.has_error() and v != 1:
            continue
        try:
            es.append(pipeline.host_entry(g, v))
        except ValueError:
            pass
    return es


def all_inputs(g, L, cap=4000):
    alpha = [ord(t) for t in g.ts]
    out = []
    for s in gram.all_strings(alpha, L):
        out.append(s)
        if len(out) >= cap:
            break
    return out


def known_match(pid, kind, **fields):
    """returns the known-findings entry matching this violation, or None (file is never written at run time)"""
    for k in vlib.load_known().get('known', []):
        if k.get('property') != pid or k.get('kind') != kind:
            continue
        if all(k.get('match', {}).get(f) == v for f, v in fields.items() if f in k.get('match', {})):
            return k
    return None


def base_coverage(res, extra=None):
    cov = {
        'states': int(res.states), 'transitions': int(res.transitions),
        'traces_validated_against_impl': int(res.traces),
        'tlc_runs': res.tlc_runs, 'event_kinds_validated': dict(res.event_kinds),
        'wall_breakdown_s': {k: round(v, 1) for k, v in res.wall.items()},
    }
    if extra:
        cov.update(extra)
    return cov


def sample_traces(entries, n=3):
    out = []
    for e in entries:
        for t in e.traces[:1]:
            out.append({'grammar': e.gid, 'rules': ['%s -> %s' % (l, ' '.join(r) or 'eps') for (l, r, _) in e.g.rules],
                        'input': bytes(t['bytes']).decode('latin-1'), 'accepted': t['ok'],
                        'events': [ev[1] if ev[0] == 'L' else ev for ev in t['events'] if ev[0] != 'L' or 'REGEX' not in ev[1]][:12]})
        if len(out) >= n:
            break
    return out


# ======================================================================================= C01
def c01_corpus(tier, seed):
    rng = random.Random(seed)
    entries = []
    for g in catalogue('lr1'):
        entries += entries_for(g)
    # small-scope enumeration (seed independent) through the host TUs
    if tier == 'quick':
        small = gengram.small_grammars(stride=37, limit=160, max_rules=3, max_rhs=2)
        nrand = 40
    else:
        small = gengram.small_grammars(stride=5, limit=2500, max_rules=3, max_rhs=2)
        small += [g for g in gengram.small_grammars(stride=211, limit=1500, max_rules=4, max_rhs=2)]
        nrand = 400
    for g in small:
        g.name = 's' + g.name
        try:
            entries.append(pipeline.host_entry(g, 2))
        except ValueError:
            pass
    for i in range(nrand):
        g = gengram.random_grammar(rng, 'r%d_%d' % (seed, i), n_nt=rng.choice([2, 3, 4]), n_t=rng.choice([2, 3]), max_rhs=3)
        try:
            entries.append(pipeline.host_entry(g, 0))
        except ValueError:
            pass
    return entries


def check_C01(tier, seed):
    out = Outcome()
    L = 4 if tier == 'quick' else 6
    entries = c01_corpus(tier, seed)
    rng = random.Random(seed * 7 + 1)
    for e in entries:
        cap = 700 if tier == 'quick' else 3000
        pipeline.add_jobs(e, all_inputs(e.g, L if len(e.g.ts) <= 3 else L - 1, cap))
        for s in gengram.sentences(e.g, rng, 4 if tier == 'quick' else 20, max_len=30 if tier == 'quick' else 120):
            pipeline.add_jobs(e, [s], tag='s')
            if s:
                m = list(s)
                m[rng.randrange(len(m))] = ord(rng.choice(e.g.ts))
                pipeline.add_jobs(e, [m], tag='m')
    res, work = prun.run(entries, 'C01', design_L=L if tier == 'quick' else 5, product_depth=8 if tier == 'quick' else 11,
                         tlc_procs=4 if tier == 'quick' else 8, tlc_workers=4 if tier == 'quick' else 2)
    by_gid = {e.gid: e for e in entries}
    if res.design_errors:
        raise Infra('the specification itself fails its oracles (spec or oracle bug, not a verdict): ' + json.dumps(res.design_errors)[:3000])
    domain = [e for e in entries if e.gid in res.conflicts and res.conflicts[e.gid]['n'] == 0 and not e.g.has_error()]
    for g in catalogue('lr1'):
        for e in entries:
            if e.g is g and e.gid in res.conflicts and res.conflicts[e.gid]['n'] != 0:
                raise Infra('catalogue grammar %s is tagged lr1 but the specification finds conflicts' % g.name)
    # candidates: every trace of a conflict-free grammar that the trace specification rejected
    cands = []
    for e in domain:
        for rj in res.rejects.get(e.gid, []):
            cands.append((e, rj))
    out.notes += ['static difference (no alarm by itself): %s %s' % (g, json.dumps(d['why'])) for g, d in list(res.static.items())[:10]]
    if cands:
        need = {}
        for e, rj in cands:
            t = rj['trace']
            need[(e.gid, tuple(t['bytes']), bool(t['ws']), bool(t['nl']))] = e
        ents = []
        for k, e in need.items():
            if e not in ents:
                ents.append(e)
        verd, _ = prun.spec_verdicts(ents, list(need.keys()), 'C01v')
        seen = set()
        for e, rj in cands:
            t = rj['trace']
            key = (e.gid, tuple(t['bytes']), bool(t['ws']), bool(t['nl']))
            v = verd.get(key)
            if v is None:
                raise Infra('no specification verdict for ' + str(key))
            spec_ok = v['status'] == 'acc'
            if spec_ok != t['ok']:
                sig = (e.g.name, tuple(t['bytes']))
                if sig in seen:
                    continue
                seen.add(sig)
                out.violations.append({
                    'summary': {'grammar': e.gid, 'rules': [[l, r, p] for (l, r, p) in e.g.rules], 'input': bytes(t['bytes']).decode('latin-1'),
                                'real_accepts': t['ok'], 'derivable': spec_ok, 'first_difference': rj['why']},
                    'kind': 'parser', 'gname': e.g.name, 'mode': e.mode, 'gid': e.gid,
                    'grammar': {'nts': e.g.nts, 'ts': e.g.ts, 'root': e.g.root, 'rules': e.g.rules, 'tprec': e.g.tprec, 'tassoc': e.g.tassoc},
                    'bytes': t['bytes'], 'ws': t['ws'], 'nl': t['nl']})
            else:
                out.notes.append('trace rejected without verdict difference (belongs to another property): %s %s' % (rj['id'], json.dumps(rj['why'])[:200]))
    # keep the report short: at most 3 violations per grammar name
    per = collections.Counter()
    kept = []
    for v in out.violations:
        per[v['gname']] += 1
        if per[v['gname']] <= 3:
            kept.append(v)
    out.violations = kept
    out.coverage = base_coverage(res, {
        'grammars': len(entries), 'grammars_conflict_free_per_spec': len(domain),
        'product_disagreements': {g: d[0] for g, d in list(res.disagree.items())[:10]},
        'bounds': {'L_all_inputs': L, 'product_stack_depth': 8 if tier == 'quick' else 11, 'long_inputs_max_tokens': 30 if tier == 'quick' else 120},
        'samples': sample_traces(domain, 3),
        'exhaustive': False,
    })
    out.assumptions = ['TLC + CommunityModules JSON reader', 'line classifier tools/traces.py (pattern only)',
                       'bounds: all inputs up to L over the used terms; product check bounded by stack depth only']
    return out


# ======================================================================================= replay
def replay(pid, path):
    v = json.load(open(path))
    out = Outcome()
    if v.get('kind') == 'parser':
        gd = v['grammar']
        g = gram.Grammar(v['gname'], gd['nts'], gd['ts'], gd['root'], [tuple(r) for r in gd['rules']], gd['tprec'], gd['tassoc'])
        if v['mode'] == 'gen':
            e = pipeline.gen_entry(g)
        else:
            e = pipeline.host_entry(g, int(v['mode'][4:]))
        e.jobs = [('%s:replay' % e.gid, 0, 0, 1, int(v['ws']), int(v['nl']), list(v['bytes']))]
        res, work = prun.run([e], 'replay', do_product=True)
        rj = res.rejects.get(e.gid, [])
        verd, _ = prun.spec_verdicts([e], [(e.gid, tuple(v['bytes']), bool(v['ws']), bool(v['nl']))], 'replayv')
        sv = list(verd.values())[0]
        t = e.traces[0] if e.traces else None
        print('real: ok=%s   spec: %s   trace rejected: %s' % (t and t['ok'], sv['status'], [r['why'] for r in rj][:2]))
        if rj or (t and (sv['status'] == 'acc') != t['ok']):
            out.violations.append(v)
    return out
