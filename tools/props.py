"""Per-property checks.  Each returns an Outcome; `check` prints the verdict lines and writes the evidence."""
import os, re, sys, json, random, itertools, collections, time, subprocess
import vlib, gram, gengram, pipeline, prun
from vlib import Infra

CATALOGUE = os.path.join(vlib.ROOT, 'corpus', 'grammars.txt')


class Outcome:
    def __init__(self):
        self.violations = []      # dicts with 'summary' (+ whatever the replay needs)
        self.known = []           # strings
        self.notes = []
        self.coverage = {}
        self.assumptions = []


_catalogue = None


def catalogue(tag=None):
    global _catalogue
    if _catalogue is None:
        _catalogue = gram.parse_catalogue(CATALOGUE)
    return [g for g in _catalogue if tag is None or tag in g.tags]


def entries_for(g, hosts=(0, 2), gen=True):
    es = []
    if gen:
        # rule precedences are written both ways across the corpus: (rule[p] >= f) and, for odd rule indexes, (rule >= f)[p]
        es.append(pipeline.gen_entry(g, postprec=[i for i, (_, _, pr) in enumerate(g.rules) if pr and i % 2 == 1]))
    for v in hosts:
        if g.has_error() and v != 1:
            continue
        try:
            es.append(pipeline.host_entry(g, v))
        except ValueError:
            pass
    return es


def all_inputs(g, L, cap=4000):
    alpha = [ord(t) for t in g.ts]
    out = []
    for s in gram.all_strings(alpha, L):
        out.append(s)
        if len(out) >= cap:
            break
    return out


def known_match(pid, kind, **fields):
    """returns the known-findings entry matching this violation, or None (file is never written at run time)"""
    for k in vlib.load_known().get('known', []):
        if k.get('property') != pid or k.get('kind') != kind:
            continue
        if all(k.get('match', {}).get(f) == v for f, v in fields.items() if f in k.get('match', {})):
            return k
    return None


def base_coverage(res, extra=None):
    cov = {
        'states': int(res.states), 'transitions': int(res.transitions),
        'traces_validated_against_impl': int(res.traces),
        'tlc_runs': res.tlc_runs, 'event_kinds_validated': dict(res.event_kinds),
        'wall_breakdown_s': {k: round(v, 1) for k, v in res.wall.items()},
    }
    if getattr(res, 'design_timeouts', None):
        cov['design_runs_without_verdict_(time_budget)'] = res.design_timeouts
    if extra:
        cov.update(extra)
    return cov


def sample_traces(entries, n=3):
    out = []
    for e in entries:
        for t in e.traces[:1]:
            out.append({'grammar': e.gid, 'rules': ['%s -> %s' % (l, ' '.join(r) or 'eps') for (l, r, _) in e.g.rules],
                        'input': bytes(t['bytes']).decode('latin-1'), 'accepted': t['ok'],
                        'events': [ev[1] if ev[0] == 'L' else ev for ev in t['events'] if ev[0] != 'L' or 'REGEX' not in ev[1]][:12]})
        if len(out) >= n:
            break
    return out


# ======================================================================================= C01
def many_terms_grammar():
    """66 declared terms: the sets of terms the analyser works with (lookaheads, FIRST) span more than one 64-bit word; the
    terms with the highest indexes reach a lookahead only THROUGH a nonterminal"""
    ts = [chr(c) for c in range(48, 48 + 66)]
    return gram.Grammar('many_terms', ['S', 'A', 'C', 'D'], ts, 'S',
                        [('S', ['A', 'C'], 0), ('S', ['S', ts[1], 'D'], 0), ('A', [ts[0]], 0), ('A', [ts[63], 'A'], 0),
                         ('C', [ts[64]], 0), ('C', [ts[65], ts[2]], 0), ('D', ['C', ts[62]], 0), ('D', [], 0)])


def many_nterms_grammar():
    """70 nonterminals: the sets of nonterminals the analyser keeps (nullable, FIRST done / in progress) span more than one
    64-bit word; nullability and FIRST travel through a unit chain that ends beyond index 64"""
    n = 70
    nts = ['S'] + ['A%d' % i for i in range(n - 1)]
    rules = [('S', ['A0', 'z'], 0), ('S', ['y', 'A%d' % (n - 3), 'y'], 0)]
    for i in range(n - 2):
        rules.append(('A%d' % i, ['A%d' % (i + 1)], 0))
    rules += [('A%d' % (n - 2), [], 0), ('A%d' % (n - 2), ['a'], 0), ('A%d' % (n - 2), ['b', 'A%d' % (n - 2)], 0)]
    return gram.Grammar('many_nterms', nts, ['a', 'b', 'y', 'z'], 'S', rules)


def many_states_grammar(with_error=False):
    """more than 256 LR(1) states (a finite language of 48 ten-letter words over two letters: the automaton is the words' trie);
    with_error: a recovery rule whose error symbol is shifted deep in the trie, into a state numbered beyond 255"""
    rng = random.Random(7)
    words = set()
    while len(words) < 48:
        words.add(''.join(rng.choice('ab') for _ in range(10)))
    words = sorted(words)
    rules = [('S', list(w), 0) for w in words]
    ts = ['a', 'b']
    if with_error:
        ts = ['a', 'b', ';']
        rules = [('S', list(w) + [';'], 0) for w in words] + [('S', list(words[-1][:9]) + ['error', ';'], 0), ('S', list(words[0][:8]) + ['error', ';'], 0)]
    g = gram.Grammar('many_states_err' if with_error else 'many_states', ['S'], ts, 'S', rules)
    g.words = words
    return g


def many_rules_grammar():
    """more than 255 rules (and > 255 states): two-letter words over 17 letters, every tenth pair left out"""
    ts = [chr(97 + i) for i in range(17)]
    pairs = [(i, j) for i in range(17) for j in range(17) if (i * 17 + j) % 10 != 3]
    rules = [('S', [ts[i], ts[j]], 0) for (i, j) in pairs]
    g = gram.Grammar('many_rules', ['S'], ts, 'S', rules)
    g.pairs = pairs
    return g


def many_rules_inputs(g):
    ins = [[97 + i, 97 + j] for i in range(17) for j in range(17)]          # every pair: nine in ten are words
    ins += [[97 + i] for i in range(17)] + [[]]
    ins += [[97 + i, 97 + j, 97 + (i + j) % 17] for (i, j) in g.pairs[::9]]
    return ins


def many_states_inputs(g):
    semi = [ord(';')] if ';' in g.ts else []
    ins = [list(w.encode()) + semi for w in g.words]
    for w in g.words[::3] + g.words[-2:]:
        for k in (0, 4, 9):
            m = list(w.encode()); m[k] = 97 if m[k] == 98 else 98
            ins.append(m + semi)
        ins.append(list(w[:6].encode()) + semi)
        ins.append(list((w + 'a').encode()) + semi)
        if semi:
            ins.append(list(w[:9].encode()) + [97, 98, 98] + semi)      # several terms to discard before the synchronising one
            ins.append(list(w[:9].encode()))                             # the input ends while discarding
    return ins


def many_terms_inputs(g):
    t = [ord(c) for c in g.ts]
    pool = [t[0], t[1], t[2], t[62], t[63], t[64], t[65], t[30]]
    return [s for s in gram.all_strings(pool, 4)]


def c01_corpus(tier, seed):
    rng = random.Random(seed)
    entries = []
    for g in catalogue('lr1'):
        entries += entries_for(g)
    entries.append(pipeline.gen_entry(many_terms_grammar()))
    entries.append(pipeline.gen_entry(many_nterms_grammar()))
    entries.append(pipeline.gen_entry(many_states_grammar()))
    entries.append(pipeline.gen_entry(many_rules_grammar()))
    # small-scope enumeration (seed independent) through the host TUs
    if tier == 'quick':
        fams = [gengram.small_grammars(stride=17, limit=160, max_rules=3, max_rhs=2),
                gengram.small_grammars(stride=499, limit=160, nts=('S', 'A', 'B'), ts=('a', 'b'), max_rules=4, max_rhs=2)]
        nrand = 120
    else:
        fams = [gengram.small_grammars(stride=5, limit=2500, max_rules=3, max_rhs=2),
                gengram.small_grammars(stride=211, limit=1500, max_rules=4, max_rhs=2),
                gengram.small_grammars(stride=397, limit=3000, nts=('S', 'A', 'B'), ts=('a', 'b'), max_rules=4, max_rhs=2)]
        nrand = 600
    small = []
    for fi, fam in enumerate(fams):
        for g in fam:
            g.name = 's%d%s' % (fi, g.name)      # one name space per enumeration family (names are keys of verdicts and traces)
            small.append(g)
    for g in small:
        try:
            entries.append(pipeline.host_entry(g, 2))
        except ValueError:
            pass
    for i in range(nrand):
        g = gengram.random_grammar(rng, 'r%d_%d' % (seed, i), n_nt=rng.choice([2, 3, 4]), n_t=rng.choice([2, 3]), max_rhs=3, p_empty=rng.choice([0.1, 0.25]))
        try:
            entries.append(pipeline.host_entry(g, 0))
        except ValueError:
            pass
    return entries


def check_C01(tier, seed):
    out = Outcome()
    L = 4 if tier == 'quick' else 6
    entries = c01_corpus(tier, seed)
    rng = random.Random(seed * 7 + 1)
    for e in entries:
        cap = 700 if tier == 'quick' else 3000
        if e.g.name == 'many_terms':
            pipeline.add_jobs(e, many_terms_inputs(e.g))
            continue
        if e.g.name == 'many_states':
            pipeline.add_jobs(e, many_states_inputs(e.g))
            continue
        if e.g.name == 'many_rules':
            pipeline.add_jobs(e, many_rules_inputs(e.g))
            continue
        pipeline.add_jobs(e, all_inputs(e.g, L if len(e.g.ts) <= 3 else L - 1, cap))
        for s in gengram.sentences(e.g, rng, 4 if tier == 'quick' else 20, max_len=30 if tier == 'quick' else 120):
            pipeline.add_jobs(e, [s], tag='s')
            if s:
                m = list(s)
                m[rng.randrange(len(m))] = ord(rng.choice(e.g.ts))
                pipeline.add_jobs(e, [m], tag='m')
    # a grammar in which the line feed is a TERM, parsed with skip_newline(false): every other whitespace character - a CR in
    # front of the LF included - is skipped, the term sequence decides
    enl = pipeline.gen_entry(gram.Grammar('nl_term_lines', ['S', 'T'], ['a', '\n'], 'S', [('S', ['S', 'T'], 0), ('S', ['T'], 0), ('T', ['a', '\n'], 0), ('T', ['a', 'a', '\n'], 0)]))
    nlins = [sx for sx in gram.all_strings([97, 10, 13, 32, 9], 5)]
    pipeline.add_jobs(enl, nlins, ws=1, nl=0, tag='crlf')
    entries.append(enl)
    res, work = prun.run(entries, 'C01', design_L=L if tier == 'quick' else 5, product_depth=8 if tier == 'quick' else 11,
                         tlc_procs=4 if tier == 'quick' else 8, tlc_workers=4 if tier == 'quick' else 2)
    by_gid = {e.gid: e for e in entries}
    if res.design_errors:
        raise Infra('the specification itself fails its oracles (spec or oracle bug, not a verdict): ' + json.dumps(res.design_errors)[:3000])
    domain = [e for e in entries if e.gid in res.conflicts and res.conflicts[e.gid]['n'] == 0 and not e.g.has_error()]
    for g in catalogue('lr1'):
        for e in entries:
            if e.g is g and e.gid in res.conflicts and res.conflicts[e.gid]['n'] != 0:
                raise Infra('catalogue grammar %s is tagged lr1 but the specification finds conflicts' % g.name)
    # candidates: every trace of a conflict-free grammar that the trace specification rejected
    cands = []
    for e in domain:
        for rj in res.rejects.get(e.gid, []):
            cands.append((e, rj))
    out.notes += ['static difference (no alarm by itself): %s %s' % (g, json.dumps(d['why'])) for g, d in list(res.static.items())[:10]]
    if cands:
        need = {}
        for e, rj in cands:
            t = rj['trace']
            need[(e.gid, tuple(t['bytes']), bool(t['ws']), bool(t['nl']))] = e
        ents = []
        for k, e in need.items():
            if e not in ents:
                ents.append(e)
        verd, _ = prun.spec_verdicts(ents, list(need.keys()), 'C01v')
        seen = set()
        for e, rj in cands:
            t = rj['trace']
            key = (e.gid, tuple(t['bytes']), bool(t['ws']), bool(t['nl']))
            v = verd.get(key)
            if v is None:
                raise Infra('no specification verdict for ' + str(key))
            spec_ok = v['status'] == 'acc'
            if spec_ok != t['ok']:
                sig = (e.g.name, tuple(t['bytes']))
                if sig in seen:
                    continue
                seen.add(sig)
                out.violations.append({
                    'summary': {'grammar': e.gid, 'rules': [[l, r, p] for (l, r, p) in e.g.rules], 'input': bytes(t['bytes']).decode('latin-1'),
                                'real_accepts': t['ok'], 'derivable': spec_ok, 'first_difference': rj['why']},
                    'kind': 'parser', 'gname': e.g.name, 'mode': e.mode, 'gid': e.gid,
                    'grammar': {'nts': e.g.nts, 'ts': e.g.ts, 'root': e.g.root, 'rules': e.g.rules, 'tprec': e.g.tprec, 'tassoc': e.g.tassoc},
                    'bytes': t['bytes'], 'ws': t['ws'], 'nl': t['nl']})
            else:
                out.notes.append('trace rejected without verdict difference (belongs to another property): %s %s' % (rj['id'], json.dumps(rj['why'])[:200]))
    # keep the report short: at most 3 violations per grammar name
    per = collections.Counter()
    kept = []
    for v in out.violations:
        per[v['gname']] += 1
        if per[v['gname']] <= 3:
            kept.append(v)
    out.violations = kept
    out.coverage = base_coverage(res, {
        'grammars': len(entries), 'grammars_conflict_free_per_spec': len(domain),
        'product_disagreements': {g: d[0] for g, d in list(res.disagree.items())[:10]},
        'bounds': {'L_all_inputs': L, 'product_stack_depth': 8 if tier == 'quick' else 11, 'long_inputs_max_tokens': 30 if tier == 'quick' else 120},
        'samples': sample_traces(domain, 3),
        'exhaustive': False,
    })
    out.assumptions = ['TLC + CommunityModules JSON reader', 'line classifier tools/traces.py (pattern only)',
                       'bounds: all inputs up to L over the used terms; product check bounded by stack depth only']
    return out


# ======================================================================================= shared: rejection classes
RECOVERY_TEXT = ('Entering recovery mode', 'Leaving recovery mode', 'Entering consume mode', 'Leaving consume mode',
                 'Could not recover from error')


def classify_reject(rj):
    """What kind of disagreement between the real execution and the specification a rejected trace shows."""
    why = rj['why']
    t = rj.get('trace') or {}
    k = why[0]
    if k in ('table', 'verdict', 'tree', 'threw', 'partial-line', 'context-mutations', 'lexer-lines'):
        return k
    if k == 'extra-events':
        import traces as tl
        evs = tl.convert(t, 1)['events'] if t else []
        x = evs[why[1] - 1] if 0 < why[1] <= len(evs) else None
        return 'extra:' + (x[0] if x else '?')
    if k == 'event':
        import traces as tl
        exp = why[2]
        evs = tl.convert(t, 1)['events'] if t else []
        act = evs[why[1] - 1] if 0 < why[1] <= len(evs) else None
        if act is not None and act[0] == exp[0] and len(act) == len(exp):
            if exp[0] in ('rec', 'unexp', 'shift', 'reduce', 'goto', 'synerr', 'msg', 'recto', 'consume') and act[3:] == exp[3:]:
                return 'position'
            if exp[0] == 'call' and act[:4] == exp[:4] and act[6:] == exp[6:]:
                return 'position'
        kinds = {exp[0]} | ({act[0]} if act else set())
        if act and act[0].startswith('oob'):
            return 'oob'
        if kinds & {'lexcall', 'lexcall_at_end'}:
            return 'lexcall'
        if kinds & {'tval', 'call', 'dcall', 'ccall', 'ilist'}:
            return 'functor'
        if kinds & {'synerr', 'unexp'}:
            return 'report'
        texts = {e[3] for e in (exp, act) if e and e[0] == 'msg'}
        if kinds & {'recto', 'consume'} or texts & set(RECOVERY_TEXT):
            return 'recovery'
        return 'step'
    return k


def classify_reject_all(rj):
    """every class the disagreement belongs to: a message printed where a functor call was due is a functor problem AND a
    report problem; each property judges the classes its statement is about"""
    out = {classify_reject(rj)}
    why = rj['why']
    if why[0] == 'event':
        import traces as tl
        t = rj.get('trace') or {}
        exp = why[2]
        evs = tl.convert(t, 1)['events'] if t else []
        act = evs[why[1] - 1] if 0 < why[1] <= len(evs) else None
        kinds = {exp[0]} | ({act[0]} if act else set())
        if kinds & {'synerr', 'unexp'}:
            out.add('report')
        if kinds & {'tval', 'call', 'dcall', 'ccall', 'ilist'}:
            out.add('functor')
        texts = {e[3] for e in (exp, act) if e and e[0] == 'msg'}
        if kinds & {'recto', 'consume'} or texts & set(RECOVERY_TEXT):
            out.add('recovery')
        # a custom lexer asked at the right offset but handed another source point
        if act and exp[0] == 'lexcall' and act[0] == 'lexcall' and act[1] == exp[1] and act[2:4] != exp[2:4]:
            out.add('position')
    return out


def trace_violation(e, rj, cls):
    t = rj['trace']
    import traces as tl
    evs = tl.convert(t, 1)['events']
    pos = rj.get('pos', rj['why'][1] if len(rj['why']) > 1 and isinstance(rj['why'][1], int) else 0)
    return {
        'summary': {'grammar': e.gid, 'rules': ['%s -> %s%s' % (l, ' '.join(r) or 'eps', ' [%d]' % p if p else '') for (l, r, p) in e.g.rules],
                    'input': (bytes(t['bytes']).decode('latin-1') if len(t['bytes']) <= 200 else bytes(t['bytes'][:80]).decode('latin-1') + '... (%d bytes, complete in the replay file)' % len(t['bytes'])),
                    'options': {'verbose': t['verbose'], 'ws': t['ws'], 'nl': t['nl'], 'stream': t['stream']},
                    'class': cls, 'spec_expected': rj['why'], 'real_event': evs[pos - 1] if 0 < pos <= len(evs) else None, 'real_ok': t['ok']},
        'kind': 'parser', 'gname': e.g.name, 'mode': e.mode, 'gid': e.gid, 'dflt': list(getattr(e, 'dflt', ())), 'lexterms': getattr(e, 'lexterms', None), 'lexshape': getattr(e, 'lexshape', 'list'), 'clex': getattr(e, 'clex', False), 'ctxr': list(getattr(e, 'ctx', ())), 'postprec': list(getattr(e, 'postprec', ())), 'defines': list(getattr(e, 'defines', ())), 'noval': list(getattr(e, 'noval', ())), 'nvterms': list(getattr(e, 'nvterms', ())), 'tkinds': {str(k): v for k, v in getattr(e, 'tkinds', {}).items()}, 'alt_nts': list(getattr(e, 'alt_nts', ())), 'ctx': t.get('ctx', 0),
        'grammar': {'nts': e.g.nts, 'ts': e.g.ts, 'root': e.g.root, 'rules': e.g.rules, 'tprec': e.g.tprec, 'tassoc': e.g.tassoc},
        'bytes': t['bytes'], 'ws': t['ws'], 'nl': t['nl'], 'verbose': t['verbose'], 'stream': t['stream'], 'buf': t['buf']}


def judge_traces(out, entries, res, relevant, domain=None, per_grammar=2):
    """Every rejected trace of a grammar in `domain` whose class is in `relevant` is a violation (the trace is the
    executed witness); other classes are notes (they belong to another property's check)."""
    per = collections.Counter()
    other = collections.Counter()
    for e in entries:
        if domain is not None and e.gid not in domain:
            continue
        for rj in res.rejects.get(e.gid, []):
            cls = classify_reject(rj)
            if any(c in relevant or c.split(':')[0] in relevant for c in classify_reject_all(rj)):
                per[e.g.name] += 1
                if per[e.g.name] <= per_grammar:
                    out.violations.append(trace_violation(e, rj, cls))
            else:
                other[cls] += 1
                if os.environ.get('VERIF_DEBUG') and other[cls] <= 3:
                    print('DEBUG other-class reject', cls, json.dumps(trace_violation(e, rj, cls)['summary'])[:700])
    for c, n in other.items():
        out.notes.append('%d rejected trace(s) of class %r (judged by another property)' % (n, c))
    # a process that dies (signal, abort, watchdog) while parsing with a grammar of this check's corpus delivered none of the
    # behaviour the property describes for the remaining inputs: the first input without a result is the witness
    by_gid = {e.gid: e for e in entries}
    for gid, rc in res.crashed:
        e = by_gid.get(gid)
        if e is None or (domain is not None and gid not in domain):
            out.notes.append('harness process died while parsing grammar %s (exit %s)' % (gid, rc))
            continue
        if rc == 124 and hasattr(e.g, 'is_cyclic') and e.g.is_cyclic():
            # A =>+ A without consuming input: the specification's driver does not terminate on such a grammar either
            out.notes.append('no result within the time budget for the CYCLIC grammar %s (some nonterminal derives itself): not a verdict' % gid)
            continue
        done = {t['id'] for t in e.traces}
        first = [j for j in e.jobs if j[0] not in done][:1]
        out.violations.append({'summary': {'grammar': gid, 'rules': ['%s -> %s%s' % (l, ' '.join(r) or 'eps', ' [%d]' % p if p else '') for (l, r, p) in e.g.rules],
                                           'class': 'the process died (exit %s) while parsing%s' % (rc, ' - no result within the time budget' if rc == 124 else ''),
                                           'input': bytes(first[0][6]).decode('latin-1') if first else None,
                                           'options': {'verbose': first[0][3], 'ws': first[0][4], 'nl': first[0][5], 'stream': first[0][2]} if first else None},
                               'kind': 'parser', 'gname': e.g.name, 'mode': e.mode, 'gid': gid, 'dflt': list(getattr(e, 'dflt', ())), 'lexterms': getattr(e, 'lexterms', None),
                               'lexshape': getattr(e, 'lexshape', 'list'), 'clex': getattr(e, 'clex', False), 'ctxr': list(getattr(e, 'ctx', ())), 'postprec': list(getattr(e, 'postprec', ())),
                               'defines': list(getattr(e, 'defines', ())), 'noval': list(getattr(e, 'noval', ())), 'nvterms': list(getattr(e, 'nvterms', ())), 'ctx': first[0][7] if first else 0,
                               'grammar': {'nts': e.g.nts, 'ts': e.g.ts, 'root': e.g.root, 'rules': e.g.rules, 'tprec': e.g.tprec, 'tassoc': e.g.tassoc},
                               'bytes': first[0][6] if first else [], 'ws': first[0][4] if first else 1, 'nl': first[0][5] if first else 1, 'verbose': first[0][3] if first else 0,
                               'stream': first[0][2] if first else 0, 'buf': first[0][1] if first else 0})


def judge_abandoned(out, entries, res, domain, workname, what=('ok', 'msgs'), per_grammar=2):
    """A trace abandoned at a TABLE difference (the dumped table and the canonical one prescribe different actions) has
    not been compared beyond that point.  For properties stated on the OUTCOME (verdict, messages) the specification's
    outcome for that very input is generated by TLC and compared with what the real parser finally did."""
    import traces as tl
    cands = []
    for e in entries:
        if domain is not None and e.gid not in domain:
            continue
        for rj in res.rejects.get(e.gid, []):
            if classify_reject(rj) == 'table' and rj.get('trace'):
                cands.append((e, rj))
    if not cands:
        return 0
    need = {}
    for e, rj in cands:
        t = rj['trace']
        need[(e.gid, tuple(t['bytes']), bool(t['ws']), bool(t['nl']))] = e
    ents = []
    for e in need.values():
        if e not in ents:
            ents.append(e)
    verd, _ = prun.spec_verdicts(ents, list(need.keys()), workname)
    per = collections.Counter()
    n = 0
    for e, rj in cands:
        t = rj['trace']
        v = verd.get((e.gid, tuple(t['bytes']), bool(t['ws']), bool(t['nl'])))
        if v is None or v['status'] not in ('acc', 'rej'):
            continue
        n += 1
        tn = e.tla['tnames']
        spec_msgs = [[m[0], m[1], m[2], (tn[m[3] - gram.TB] if m[0] == 'synerr' else m[3])] for m in v['msgs']]
        real_msgs = [c for c in (tl.classify(ev[1]) for ev in t['events'] if ev[0] == 'L') if c[0] in ('synerr', 'unexp')]
        bad = []
        if 'ok' in what and (v['status'] == 'acc') != t['ok']:
            bad.append('verdict')
        if 'msgs' in what and spec_msgs != real_msgs:
            bad.append('messages')
        if 'calls' in what:
            # the order in which the rules' functors ran (all of them: reduction order is part of the property)
            spec_calls = [n['sym'] for n in v['nodes'] if n['k'] == 1]
            real_calls = [ev[1] for ev in t['events'] if ev[0] in ('call', 'ccall')]
            if spec_calls != real_calls:
                bad.append('order of functor calls')
        if ('tree' in what or 'positions' in what) and v['status'] == 'acc' and t['ok'] and t.get('tree') is not None:
            # the result tree by structure (rule / term, lexeme slice) and, for 'positions', the source points of its leaves
            pos = 'positions' in what

            def spec_tree(i):
                if i < 0:
                    return None
                n = v['nodes'][i]
                if n['k'] == 0:
                    return ('t', n['sym'], n['off'], n['len']) + ((n['line'], n['col']) if pos else ())
                return ('r', n['k'], n['sym'], tuple(spec_tree(c) for c in n['ch']))

            def real_tree(x):
                if x is None:
                    return None
                if x[1] == 0:
                    return ('t', x[2], x[3], x[4]) + ((x[5], x[6]) if pos else ())
                return ('r', x[1], x[2], tuple(real_tree(c) for c in x[7]))
            if spec_tree(v['root']) != real_tree(t['tree']):
                bad.append('result tree' + (' / source points' if pos else ''))
        if bad:
            per[e.g.name] += 1
            if per[e.g.name] <= per_grammar:
                vio = trace_violation(e, rj, 'outcome(' + ','.join(bad) + ')')
                vio['summary']['spec_outcome'] = {'accepts': v['status'] == 'acc', 'messages': spec_msgs}
                vio['summary']['real_outcome'] = {'accepts': t['ok'], 'messages': real_msgs}
                out.violations.append(vio)
    return n


def ws_inputs(g, L, extra, cap, rng=None):
    alpha = [ord(t) for t in g.ts] + list(extra)
    res = []
    for s in gram.all_strings(alpha, L):
        res.append(s)
        if len(res) >= cap:
            break
    return res


def byte_sweep(e, buf=0, verbose=False, tag='bs'):
    """every byte value 0..255 alone, after a term and before a term, under both whitespace settings: byte classes
    (whitespace sets, NUL, sign extension of bytes >= 0x80) are part of 'all inputs'"""
    ts = [ord(t) for t in e.g.ts] if e.g.ts else [ord('a')]
    if hasattr(e, 'lexterms'):
        ts = [t[1] if t[0] == 'C' else t[1][0] for t in e.lexterms if t[0] in ('C', 'S')] or [ord('a')]
    t0 = ts[0]
    ins = []
    for b in range(256):
        ins += [[b], [t0, b], [b, t0], [t0, b, t0]]
    pipeline.add_jobs(e, ins, buf=buf, verbose=verbose, ws=1, nl=1, tag=tag + 'a')
    pipeline.add_jobs(e, ins[::2], buf=buf, verbose=verbose, ws=1, nl=0, tag=tag + 'b')
    pipeline.add_jobs(e, ins[1::4], buf=buf, verbose=verbose, ws=0, nl=1, tag=tag + 'c')


def std_assumptions():
    return ['TLC + CommunityModules JSON reader', 'line classifier tools/traces.py (pattern only, one event per printed line)',
            'bounded inputs (length bound and samples recorded under coverage.bounds)']


# ======================================================================================= C02
def check_C02(tier, seed):
    out = Outcome()
    rng = random.Random(seed)
    L = 4 if tier == 'quick' else 6
    entries = []
    for g in catalogue('lr1') + catalogue('sr'):
        entries += entries_for(g)
    # rules WITHOUT a functor: the left-side value is constructed from the right-side values (all / every other / random rules)
    for gi, g in enumerate(catalogue('lr1')):
        if tier == 'quick' and gi % 2:
            continue
        n = len(g.rules)
        for vi, dset in enumerate([set(range(n)), set(range(0, n, 2)), {i for i in range(n) if rng.random() < 0.5}]):
            if dset and (tier != 'quick' or vi == gi % 3):
                entries.append(pipeline.gen_entry(g, gid='%s@dflt%d' % (g.name, vi), dflt=sorted(dset)))
    nrand = 30 if tier == 'quick' else 300
    for i in range(nrand):
        g = gengram.random_grammar(rng, 'r%d_%d' % (seed, i), n_nt=rng.choice([2, 3, 4]), n_t=rng.choice([2, 3]), max_rhs=3, p_empty=0.25)
        try:
            entries.append(pipeline.host_entry(g, 0))
        except ValueError:
            pass
    for e in entries:
        pipeline.add_jobs(e, all_inputs(e.g, L if len(e.g.ts) <= 3 else L - 1, 500 if tier == 'quick' else 3000))
        for s in gengram.sentences(e.g, rng, 6 if tier == 'quick' else 30, max_len=40 if tier == 'quick' else 200):
            pipeline.add_jobs(e, [s], tag='s', verbose=bool(rng.getrandbits(1)))
    # FEATURES IN COMBINATION: the features a rule or symbol can carry (contextual functor, no functor, value-less nonterminal,
    # value-less term, precedence written after the functor, a value type whose move may throw, error rules) are drawn
    # together per translation unit, and every input runs under drawn options (verbosity, whitespace options, buffer kind,
    # stream kind, context category): each feature is specified on its own in Driver.tla, the combination is what runs
    cat_ = {g.name: g for g in catalogue()}
    cross = []
    cnames = ['err_stmt', 'err_pop_reduce', 'expr_unary', 'nullable_prefix', 'paren_list', 'dangling_else_reduce', 'err_block', 'expr_strat']
    for n in cnames[:5 if tier == 'quick' else 8]:
        g = cat_[n]
        for k in range(3 if tier == 'quick' else 8):
            nv = [i for i, x in enumerate(g.nts) if x != g.root and rng.random() < 0.4]
            ctx = [i for i in range(len(g.rules)) if rng.random() < 0.4]
            # (a functor-less unit rule over a value-less nonterminal would need Node(no_type): not a valid user program)
            dfl = [] if g.has_error() else [i for i, (l, r, _) in enumerate(g.rules) if i not in ctx and g.nts.index(l) not in nv and rng.random() < 0.3
                                            and not (len(r) == 1 and r[0] in g.nts and g.nts.index(r[0]) in nv)]
            # (non-root nonterminals of a second value type that is constructible from what the functors return; not where a
            # functor-less rule would have to construct it from its parts)
            alt = [i for i, x in enumerate(g.nts) if x != g.root and i not in nv and rng.random() < 0.5
                   and not any(l == x and ri in dfl for ri, (l, _, _) in enumerate(g.rules))]
            e = pipeline.gen_entry(g, gid='%s@x%d' % (n, k), ctx=ctx, dflt=dfl, noval=nv, alt_nts=alt, nvterms=[i for i in range(len(g.ts)) if rng.random() < 0.3],
                                   postprec=[i for i, (_, _, pr) in enumerate(g.rules) if pr and rng.random() < 0.5],
                                   defines=('VH_MOVE_MAY_THROW',) if rng.random() < 0.5 else ())
            ins = ws_inputs(g, 4 if len(g.ts) <= 3 else 3, [32, 10, ord('?')], 600 if tier == 'quick' else 3000)
            rng.shuffle(ins)
            for b in ins[:150 if tier == 'quick' else 1200]:
                st = rng.choice([0, 0, 0, 1, 2])
                pipeline.add_jobs(e, [b], buf=rng.choice([0, 1, 3]), stream=st, verbose=bool(rng.getrandbits(1)), ws=rng.choice([1, 1, 0]), nl=rng.choice([1, 1, 0]),
                                  ctx=(rng.choice([1, 2, 3, 4, 5]) if (ctx and st == 0) else (rng.choice([0, 1, 2]) if (ctx and st == 1) else 0)), tag='x')
            cross.append(e)
    entries += cross
    # term values that are LEXEMES of regex terms (the value handed to a term's functor is the longest lexeme its pattern
    # denotes at that place): token-list parsers over terms with '+' / '*' over groups, alternatives and optional tails
    import lx as lxl
    lexes = []
    # (the last one: words that may START with a byte >= 0x80 - such a byte is part of the lexeme, never a blank to be skipped)
    for li, ts in enumerate([[lxl.R('(a|b)+'), lxl.C(',')], [lxl.R('(ab|c)+'), lxl.C(',')], [lxl.R('(ab?)+'), lxl.C(',')], [lxl.R('[a-c](_?[a-c0-9])+'), lxl.C('=')],
                             [lxl.R('[a-c\\x80-\\xff]+'), lxl.C(',')], [lxl.R('(a+)?,'), lxl.R('b(a*b)?')]]):
        el = pipeline.lex_entry('c02lex%d' % li, ts)
        al = [ord(c) for c in ('ab, ' if li == 0 else 'abc, ' if li == 1 else 'ab, ' if li == 2 else 'a_0= ')] if li < 4 else ([0xe0, 0xc9, 0xa0, 0x89, 0x8d, 97, 32, 44] if li == 4 else [97, 98, 44, 32])
        lins = [sx for sx in gram.all_strings(al, 5 if li != 4 else 4)][:1500 if tier == 'quick' else 4000] + [list(b'ab ba'), list(b'bb abba'), list(b'cab abcc'), list(b'abab,aab'), list(b'a_b0=c__a')]
        pipeline.add_jobs(el, lins, verbose=False)
        lexes.append(el)
    entries += lexes
    res, work = prun.run(entries, 'C02', design_L=L if tier == 'quick' else 5, do_product=True, design_only={e.gid for e in entries if e not in cross and e not in lexes},
                         tlc_procs=4 if tier == 'quick' else 8, tlc_workers=4 if tier == 'quick' else 2)
    if res.design_errors:
        raise Infra('the specification itself fails its oracles: ' + json.dumps(res.design_errors)[:3000])
    # domain: no reduce/reduce conflict (behaviour undefined there); S/R grammars are in (the tree is then the resolved one)
    domain = {e.gid for e in entries if e.gid in res.conflicts and res.conflicts[e.gid]['rr'] == 0}
    # 'table': the real table prescribes a reduction / shift the canonical table does not (or vice versa) on an executed
    # input - a functor would run for a node that is not part of the derivation (or a node's functor would not run)
    judge_traces(out, entries, res, {'functor', 'tree', 'table', 'extra:call', 'extra:tval', 'extra:dcall', 'extra:ilist', 'threw'}, domain)
    out.violations += helpers_through_parser(vlib.scratch('C02hp'))       # rules whose functors are the documented helpers
    accepted = sum(1 for e in entries for t in e.traces if t['ok'])
    out.coverage = base_coverage(res, {
        'grammars': len(entries), 'grammars_in_domain': len(domain), 'accepted_inputs_validated': accepted,
        'helper_functor_rules': 'harness/helpers_parse.cpp',
        'functor_calls_validated': res.event_kinds.get('call', 0), 'term_values_validated': res.event_kinds.get('tval', 0),
        'bounds': {'L_all_inputs': L, 'long_sentences_max_tokens': 40 if tier == 'quick' else 200},
        'samples': sample_traces([e for e in entries if e.gid in domain and any(t['ok'] for t in e.traces)], 3), 'exhaustive': False})
    out.assumptions = std_assumptions() + ['functor observation: every rule carries a logging functor, every term a logging term functor (harness/rt.hpp)']
    return out


# ======================================================================================= C09
def check_C09(tier, seed):
    out = Outcome()
    rng = random.Random(seed)
    L = 4 if tier == 'quick' else 5
    entries = []
    for g in catalogue('lr1'):
        entries += entries_for(g, hosts=(0,))
    nrand = 30 if tier == 'quick' else 300
    for i in range(nrand):
        g = gengram.random_grammar(rng, 'r%d_%d' % (seed, i), n_nt=rng.choice([2, 3]), n_t=rng.choice([2, 3]), max_rhs=3)
        try:
            entries.append(pipeline.host_entry(g, 0))
        except ValueError:
            pass
    # character terms that are not printable: their display names ('\\x01', '\\x11', '\\x81') appear in the messages
    entries += entries_for(gram.Grammar('ctl_terms', ['S'], ['a', '\x01', '\x11', '\x81'], 'S',
                                        [('S', ['S', 'a', '\x01'], 0), ('S', ['S', '\x11'], 0), ('S', ['\x81'], 0)]), hosts=())
    # a declared nonterminal WITHOUT rules standing before one that has rules (rule slices are built per nonterminal)
    gap = [g for g in gengram.small_grammars(stride=53, limit=4000, nts=('S', 'A', 'B'), ts=('a', 'b'), max_rules=3, max_rhs=2)
           if not any(l == 'A' for (l, _, _) in g.rules) and any(l == 'B' for (l, _, _) in g.rules)]
    gap.sort(key=lambda g: -sum(1 for (l, _, _) in g.rules if l == 'B'))       # several rules behind the gap first
    for g in gap[:10 if tier == 'quick' else 60]:
        g.name = 'gap' + g.name
        try:
            entries.append(pipeline.host_entry(g, 0))
        except ValueError:
            pass
    # generated lexers over multi-character terms (term sets the automaton layer of C04 finds correct): an 'Unexpected
    # character' must appear exactly where NO term matches
    import lx as lxl
    lex_entries = [pipeline.lex_entry('c09lex%d' % i, lxl.FAMILIES[i]) for i in ((0, 2, 5) if tier == 'quick' else (0, 1, 2, 3, 5, 6, 12))]
    # terms with display names of their own (regex_term's custom name, wrapped in typed_term) in a grammar where token ORDER
    # matters: the one message must name the offending term as the grammar's author named it
    lex_entries.append(pipeline.lex_entry('c09named', [lxl.R('[1-9][0-9]*', 'number'), lxl.C('+'), lxl.R('[a-z]+', 'ident'), lxl.S('if')], shape='pairs'))
    # two terms with ONE display name and different ids (a regex term named like the keyword it generalises): rule symbols are
    # resolved by id, so the grammar below is what was written - the messages name either of them 'id'
    lex_entries.append(pipeline.lex_entry('c09samename', [lxl.S('id'), lxl.C('='), lxl.R('[a-z]+', 'id')], shape='pairs'))
    for el in lex_entries:
        alpha = sorted({b for t in el.lexterms for b in ([t[1]] if t[0] == 'C' else t[1]) if 32 < b < 127 and chr(b) not in '[]()*+?|{}\\^-.'} | {ord('i'), ord('1'), ord('+'), ord('=')})[:7]
        ins = []
        for sx in gram.all_strings(alpha + [32, ord('?')], 4 if tier == 'quick' else 5):
            ins.append(sx)
            if len(ins) >= (1500 if tier == 'quick' else 12000):
                break
        pipeline.add_jobs(el, ins, verbose=False)
        pipeline.add_jobs(el, ins[::5], verbose=True)
    unknown = [ord('?'), 32, 0]
    emany = pipeline.gen_entry(many_terms_grammar())
    pipeline.add_jobs(emany, many_terms_inputs(emany.g), verbose=False)
    pipeline.add_jobs(emany, many_terms_inputs(emany.g)[::5], verbose=True)
    for ei, e in enumerate(entries):
        if ei % (7 if tier == 'quick' else 2) == 0:
            byte_sweep(e)
        ins = ws_inputs(e.g, L if len(e.g.ts) <= 3 else L - 1, unknown, 600 if tier == 'quick' else 4000)
        pipeline.add_jobs(e, ins, verbose=False)
        pipeline.add_jobs(e, ins[::3], verbose=True)
        for s in gengram.sentences(e.g, rng, 4 if tier == 'quick' else 20, max_len=30):
            if s:
                m = list(s); m[rng.randrange(len(m))] = rng.choice([ord(c) for c in e.g.ts] + [ord('?')])
                pipeline.add_jobs(e, [m], tag='m', verbose=False)
                pipeline.add_jobs(e, [s[:rng.randrange(len(s))]], tag='p', verbose=False)
    estates = pipeline.gen_entry(many_states_grammar())
    pipeline.add_jobs(estates, many_states_inputs(estates.g), verbose=False)
    # the blank and the tab as TERMS (skip_whitespace(false)): the message names the offending term - '\x20', '\x09' - as every
    # other character outside 0x21..0x7e is named
    eblank = pipeline.gen_entry(gram.Grammar('blank_terms', ['S'], ['a', ' ', '\t'], 'S', [('S', ['S', 'a', ' '], 0), ('S', ['\t'], 0)]))
    pipeline.add_jobs(eblank, [sx for sx in gram.all_strings([97, 32, 9, ord('?')], 4)], verbose=False, ws=0, nl=1, tag='b')
    pipeline.add_jobs(eblank, [sx for sx in gram.all_strings([97, 32, 9], 3)], verbose=True, ws=0, nl=0, tag='bv')
    entries += lex_entries + [emany, estates, eblank]
    res, work = prun.run(entries, 'C09', design_L=L if tier == 'quick' else 5, design_ws=unknown[:2], do_product=True,
                         tlc_procs=4 if tier == 'quick' else 8, tlc_workers=4 if tier == 'quick' else 2)
    if res.design_errors:
        raise Infra('the specification itself fails its oracles: ' + json.dumps(res.design_errors)[:3000])
    domain = {e.gid for e in entries if e.gid in res.conflicts and res.conflicts[e.gid]['n'] == 0}
    judge_traces(out, entries, res, {'report', 'extra:synerr', 'extra:unexp', 'verdict', 'extra:unknown'}, domain)
    # traces abandoned at a table difference: verdict and messages against the specification's outcome for that input
    nab = judge_abandoned(out, entries, res, domain, 'C09ab')
    failing = sum(1 for e in entries for t in e.traces if not t['ok'])
    out.coverage = base_coverage(res, {
        'grammars': len(entries), 'grammars_conflict_free_per_spec': len(domain), 'failing_inputs_validated': failing,
        'messages_validated': res.event_kinds.get('line', 0),
        'bounds': {'L_all_inputs_incl_unknown_byte_and_space': L},
        'samples': sample_traces([e for e in entries if e.gid in domain and any(not t['ok'] for t in e.traces)], 3), 'exhaustive': False})
    out.assumptions = std_assumptions() + ['valid-prefix oracle applies to grammars whose reachable nonterminals are all productive']
    return out


# ======================================================================================= C10
def check_C10(tier, seed):
    out = Outcome()
    rng = random.Random(seed)
    entries = []
    names = ['left_rec', 'paren_list', 'expr_strat', 'two_lists', 'nullable_prefix', 'err_suite', 'err_stmt']
    cat = {g.name: g for g in catalogue()}
    for n in names:
        entries += entries_for(cat[n], hosts=(0, 1))
    # terms that are themselves whitespace / newline characters (multi-line lexemes, skip options decide)
    entries += entries_for(gram.Grammar('nl_term', ['S'], ['a', '\n', '\t'], 'S', [('S', ['S', 'a'], 0), ('S', ['S', '\n'], 0), ('S', ['S', '\t'], 0), ('S', [], 0)]), hosts=(0,))
    wsb = [32, 10, 9, 13]
    L = 4 if tier == 'quick' else 5
    for e in entries:
        for (ws, nl) in ((1, 1), (1, 0), (0, 1), (0, 0)):
            ins = ws_inputs(e.g, L if len(e.g.ts) <= 2 else L - 1, wsb, 400 if tier == 'quick' else 2500)
            pipeline.add_jobs(e, ins, verbose=True, ws=ws, nl=nl, tag='o%d%d_' % (ws, nl))
        # longer random layouts: sentences with random whitespace runs between tokens
        for s in gengram.sentences(e.g, rng, 6 if tier == 'quick' else 40, max_len=25):
            lay = []
            for b in s:
                for _ in range(rng.choice([0, 0, 1, 2, 3])):
                    lay.append(rng.choice([32, 10, 9, 13, 11, 12, 10]))
                lay.append(b)
            for _ in range(rng.choice([0, 1, 2])):
                lay.append(rng.choice([32, 10]))
            pipeline.add_jobs(e, [lay], tag='lay', verbose=bool(rng.getrandbits(1)), ws=1, nl=rng.choice([0, 1, 1]))
    for e in entries[:3 if tier == 'quick' else 8]:
        byte_sweep(e, verbose=True)
    # more lines than a 16-bit counter holds: positions of a term, and of a message, beyond line 65 536
    e0 = [e for e in entries if e.g.name == 'left_rec'][0]
    t0_ = ord(e0.g.ts[0])
    pipeline.add_jobs(e0, [[10] * 65534 + [t0_], [10] * 65536 + [32, 32, t0_, 10, t0_], [10] * 70000 + [32, ord('?')]], verbose=False, tag='deep')
    # ... and more columns (one line of blanks)
    pipeline.add_jobs(e0, [[32] * 65534 + [t0_], [32] * 65536 + [t0_, 32, t0_], [32] * 70000 + [ord('?')]], verbose=False, tag='wide')
    # ... positions of six digits, as a std::ostream shows them (the library's own inserter for source points): the text must be
    # the validated message of the same call
    big6 = [[10] * 100001 + [32, 32, 32, ord('?')], [32] * 123456 + [ord('?')]]
    pipeline.add_jobs(e0, big6, verbose=False, tag='six')
    pipeline.add_jobs(e0, big6, verbose=False, stream=2, tag='sixos')
    # generated lexers whose automaton looks PAST the accepted lexeme before falling back (partial longer matches),
    # multi-character and multi-line lexemes: the position must advance by the lexeme, not by what was scanned
    import lx as lxl
    lexsets = [
        ('num_dot', [lxl.R('[0-9]+(\\.[0-9]+)?'), lxl.C('.'), lxl.R('[a-z]+')], '12.foo 3.5.x\n7.\n.9'),
        ('shl', [lxl.S('<'), lxl.S('<<='), lxl.R('[a-z]+')], '<<x <<=y\n<< <\n<<'),
        ('kw_prefix', [lxl.S('ab'), lxl.S('abcd'), lxl.R('[c-z]')], 'abcx abcd\nabc\nab'),
        ('multiline', [lxl.S('a\nb'), lxl.C('a'), lxl.C('b'), lxl.C('\n')], 'a\nb a\na\nb\nb'),
        ('strlit', [lxl.R('"[^"]*"'), lxl.R('[a-z]+')], 'x "a\nb\n" y "" "z'),
        # string terms whose text ENDS in a line feed (a continuation mark, CR LF as a term): the next term is on the next line
        ('linecont', [lxl.S('\\\n'), lxl.R('[a-z]+'), lxl.S('\r\n')], 'ab\\\ncd ef\\\n\\\nx\r\ny \\\n?'),
        # bytes >= 0x80 inside lexemes (every byte but the newline advances the column by one: no notion of code points)
        ('highbytes', [lxl.R('"[^"]*"'), lxl.R('[a-z]+'), lxl.R('[\\x80-\\xff]+')], 'x "\x80\xbf\xc3\xa9" y \xe2\x82\xac z\n"\xbf" q'),
    ]
    lex_entries = []
    for name, ts, sample in lexsets:
        ts = [(k, [b for b in bytes(bytes(d).decode('latin-1').replace('\\\\', '\\'), 'latin-1')]) if k != 'C' else (k, d) for (k, d) in ts]
        el = pipeline.lex_entry('c10' + name, ts)
        sb = list(sample.encode('latin-1'))
        alpha = sorted(set(sb))[:7]
        ins = [sb] + [sb[:k] for k in range(1, len(sb), 3)]
        Lx = 4 if tier == 'quick' else 5
        for sx in gram.all_strings(alpha, Lx):
            ins.append(sx)
            if len(ins) > (900 if tier == 'quick' else 6000):
                break
        for (ws, nl) in ((1, 1), (1, 0), (0, 1)):
            pipeline.add_jobs(el, ins if ws and nl else ins[::3], verbose=True, ws=ws, nl=nl, tag='o%d%d_' % (ws, nl))
        for _ in range(20 if tier == 'quick' else 200):
            pipeline.add_jobs(el, [[rng.choice(alpha) for _ in range(rng.randint(3, 30))]], verbose=bool(rng.getrandbits(1)), tag='r')
        lex_entries.append(el)
    entries += lex_entries
    # a custom lexical analyzer whose lexemes contain line breaks (a multi-line literal, a comment): the source point it is
    # handed for the NEXT term, and the positions in later messages and values, must have moved to the right line
    eclex = pipeline.clex_entry(cat['left_rec'], gid='c10clex@clex')
    calpha = [0x40, 0x41, 0x42, 10, 32, 0x21]            # term 0 with 1, 2 and 3 characters; newline; blank; a byte that is no term
    cins = [sx for sx in gram.all_strings(calpha, 4)]
    cins += [[0x42, 10, 10, 0x40, 0x21], [0x41, 10, 0x42, 10, 32, 0x40, 10, 0x21], [0x43, 10, 10, 10, 0x40]]
    for (ws, nl) in ((1, 1), (1, 0), (0, 1), (0, 0)):
        pipeline.add_jobs(eclex, cins if (ws, nl) == (1, 1) else cins[::4], verbose=True, ws=ws, nl=nl, tag='o%d%d_' % (ws, nl))
    entries.append(eclex)
    res, work = prun.run(entries, 'C10', design_L=None, do_product=False, tlc_procs=4 if tier == 'quick' else 8, tlc_workers=4 if tier == 'quick' else 2)
    domain = {e.gid for e in entries}
    judge_traces(out, entries, res, {'position'}, domain)
    # traces abandoned at a table difference: positions in the messages and of the result's leaves against the specification's outcome
    judge_abandoned(out, entries, res, domain, 'C10ab', what=('msgs', 'positions'))
    cap6 = {tuple(t['bytes']): ''.join(ev[1] + '\n' for ev in t['events'] if ev[0] == 'L') for t in e0.traces if t['id'].split(':')[1].startswith('six') and t['stream'] == 0}
    for t in e0.traces:
        if t['stream'] == 2 and tuple(t['bytes']) in cap6 and t['stream_text'] != cap6[tuple(t['bytes'])]:
            out.violations.append({'summary': {'grammar': e0.gid, 'class': 'position: the text a std::ostream receives differs from the validated message of the same call',
                                               'input_length': len(t['bytes']), 'ostream': t['stream_text'][:120], 'validated': cap6[tuple(t['bytes'])][:120]}, 'kind': 'parser', 'gname': e0.g.name, 'mode': e0.mode, 'gid': e0.gid,
                                   'grammar': {'nts': e0.g.nts, 'ts': e0.g.ts, 'root': e0.g.root, 'rules': e0.g.rules, 'tprec': e0.g.tprec, 'tassoc': e0.g.tassoc},
                                   'bytes': t['bytes'][:5000], 'ws': 1, 'nl': 1, 'verbose': 0, 'stream': 2, 'buf': 0})
    out.coverage = base_coverage(res, {
        'grammars': len(entries), 'positions_compared': res.event_kinds.get('line', 0) + res.event_kinds.get('call', 0),
        'option_combinations': 4, 'bounds': {'L_all_inputs_over_terms_and_SP_LF_TAB_CR': L},
        'samples': sample_traces(entries, 3), 'exhaustive': False})
    out.assumptions = std_assumptions() + ['reference: Driver!SpUpd (newline -> line+1, column 1; any other byte column+1)']
    return out


# ======================================================================================= C08
def check_C08(tier, seed):
    out = Outcome()
    rng = random.Random(seed)
    L = 5 if tier == 'quick' else 6
    entries = []
    for g in catalogue('err'):
        entries += entries_for(g, hosts=(1,))
        # the same grammar with terms whose value type is no_type (typed_term(t, create<no_type>{})): the error symbol's own
        # value is a no_type as well
        entries.append(pipeline.gen_entry(g, gid=g.name + '@nv', nvterms=[i for i in range(len(g.ts)) if i % 2 == 0]))
    nrand = 40 if tier == 'quick' else 400
    for i in range(nrand):
        g = gengram.random_grammar(rng, 'r%d_%d' % (seed, i), n_nt=rng.choice([2, 3]), n_t=rng.choice([2, 3]), max_rhs=3, error=True)
        if not g.has_error():
            continue
        try:
            entries.append(pipeline.host_entry(g, 1))
        except ValueError:
            pass
    # the line-oriented idiom: the newline is a term that ends the discarding (only meaningful with skip_newline(false))
    entries += entries_for(gram.Grammar('err_lines', ['S', 'T'], ['a', 'b', '\n'], 'S',
                                        [('S', ['S', 'T'], 0), ('S', ['T'], 0), ('T', ['a', '\n'], 0), ('T', ['a', 'b', '\n'], 0), ('T', ['error', '\n'], 0)]), hosts=())
    ebig = pipeline.gen_entry(many_states_grammar(with_error=True))       # the error symbol shifted into a state numbered beyond 255
    pipeline.add_jobs(ebig, many_states_inputs(ebig.g), verbose=True)
    for e in entries:
        ins = all_inputs(e.g, L if len(e.g.ts) <= 3 else L - 1, 800 if tier == 'quick' else 5000)
        # (an unknown byte among the terms: 'Unexpected character' also while discarding)
        ins += [x for x in ws_inputs(e.g, 4, [ord('?')], 3000) if ord('?') in x][::9][:120 if tier == 'quick' else 600]
        pipeline.add_jobs(e, ins, verbose=True)
        pipeline.add_jobs(e, ins[::5], verbose=False)
        # recovery under the other whitespace options: what is skipped while discarding is what the options say
        oins = [x for x in ws_inputs(e.g, 4, [32, 10], 1500 if tier == 'quick' else 6000) if 32 in x or 10 in x]
        oins = oins[::max(1, len(oins) // (150 if tier == 'quick' else 1200))]
        for (ws, nl) in ((1, 0), (0, 1), (0, 0)):
            pipeline.add_jobs(e, oins, verbose=True, ws=ws, nl=nl, tag='o%d%d_' % (ws, nl))
    entries.append(ebig)
    # recovery over MULTI-character lexemes (a number, a two-character separator): what is discarded is whole terms - the rest
    # of a discarded lexeme is never lexed again
    import lx as lxl
    elex = pipeline.lex_entry('c08lexerr', [lxl.R('[1-9][0-9]*'), lxl.C('+'), lxl.S(';;'), lxl.C(';')], 'errstmt')
    lins = [sx for sx in gram.all_strings([ord(c) for c in '10+; '], 5)][:2500 if tier == 'quick' else 8000]
    lins += [list(b'1; + 10; 2;'), list(b'1 ;; + 100 ;; 20;'), list(b'+ 10'), list(b'+ ;;;'), list(b'7;34; + 1000;;;')]
    pipeline.add_jobs(elex, lins, verbose=True)
    pipeline.add_jobs(elex, lins[::7], verbose=False)
    entries.append(elex)
    res, work = prun.run(entries, 'C08', design_L=4 if tier == 'quick' else 5, do_product=True, design_only={e.gid for e in entries if e is not ebig and e is not elex},
                         tlc_procs=4 if tier == 'quick' else 8, tlc_workers=4 if tier == 'quick' else 2)
    if res.design_errors:
        raise Infra('the specification itself fails its invariants: ' + json.dumps(res.design_errors)[:3000])
    domain = {e.gid for e in entries if e.gid in res.conflicts and res.conflicts[e.gid]['rr'] == 0}
    # every grammar here has error rules: a deviation of any step (a recognise / reduce / functor call that should follow a
    # recovery and does not happen, ...) is a deviation from the documented recovery behaviour
    judge_traces(out, entries, res, {'recovery', 'verdict', 'extra', 'tree', 'step', 'functor', 'report', 'table'}, domain)
    recovered = sum(1 for e in entries for t in e.traces if t['ok'] and any(ev[0] == 'L' and 'Syntax error' in ev[1] for ev in t['events']))
    out.coverage = base_coverage(res, {
        'grammars': len(entries), 'grammars_in_domain': len(domain), 'parses_that_recovered_and_succeeded': recovered,
        'bounds': {'L_all_inputs': L},
        'samples': sample_traces([e for e in entries if any(any(ev[0] == 'L' and 'Recovering' in ev[1] for ev in t['events']) for t in e.traces)], 3),
        'exhaustive': False})
    out.assumptions = std_assumptions() + ['recovery semantics = readme "Error recovery" (pop only while the top state has no action on the error token)']
    return out


# ======================================================================================= C16
def check_C16(tier, seed):
    out = Outcome()
    rng = random.Random(seed)
    L = 4 if tier == 'quick' else 5
    entries = []
    for g in catalogue('lr1')[::2] + catalogue('sr')[:3] + catalogue('err')[:4]:
        entries += entries_for(g, hosts=(), gen=True) if len(entries) % 2 else entries_for(g, hosts=(0, 1), gen=False) or entries_for(g, hosts=(), gen=True)
    # multi-character lexemes (string / regex terms): what the verbose lines print of a lexeme must be the lexeme
    import lx as lxl
    for li, ts in enumerate([[lxl.S('if'), lxl.R('[0-9]+'), lxl.C('+'), lxl.S('++')], [lxl.R('[a-z]+'), lxl.S('=='), lxl.C('=')]][:1 if tier == 'quick' else 2]):
        entries.append(pipeline.lex_entry('c16lex%d' % li, ts))
    # terms of which one is a proper prefix of another with a NON-accepting stretch between them ('.' and "...", a number and
    # "1..2"): the lexer runs past the shorter lexeme and must come back to it - with and without the verbose lines
    # (no term shares characters with the number pattern: a set like {[0-9]+, "1..2"} runs into known finding K1 - the real
    #  lexer takes "0..2" for the string term - which is C03 / C04's business, not a verbosity matter)
    entries.append(pipeline.lex_entry('c16lexfb', [lxl.S('...'), lxl.C('.'), lxl.R('[0-9]+'), lxl.S('+.+'), lxl.C('+')]))
    # a parser with a custom lexical analyzer: its verbose trace must report the recognised terms as well
    cat_ = {g.name: g for g in catalogue()}
    eclex = pipeline.clex_entry(cat_['paren_list'], gid='c16clex@clex')
    entries.append(eclex)
    groups = {}
    for e in entries:
        if e is eclex:
            nt_ = len(e.g.ts)
            ins = [s for s in gram.all_strings([0x40 + 4 * i for i in range(nt_)] + [0x41, 0x20, 0x21], 4)][:250 if tier == 'quick' else 2000]
        elif hasattr(e, 'lexterms'):
            alpha = sorted({b for t in e.lexterms for b in ([t[1]] if t[0] == 'C' else t[1]) if 32 < b < 127 and chr(b) not in '[]-+*'} | {ord('1'), ord('2'), ord('+'), 32})[:7]
            ins = []
            for sx in gram.all_strings(alpha, 4):
                ins.append(sx)
                if len(ins) >= (250 if tier == 'quick' else 2000):
                    break
            ins += [list(b'if 12+3 ++ if7'), list(b'123456+++if'), list(b'..'), list(b'1..'), list(b'+.'), list(b'.....'), list(b'+.+'), list(b'... ..'), list(b'12. 5'), list(b'+.1'), list(b'+..+')]
        else:
            ins = ws_inputs(e.g, L if len(e.g.ts) <= 3 else L - 1, [ord('?'), 32], 250 if tier == 'quick' else 2000)
        for (v, st) in ((1, 0), (0, 0), (1, 1), (0, 1), (1, 2), (0, 2)):
            pipeline.add_jobs(e, ins, verbose=bool(v), stream=st, tag='v%ds%d_' % (v, st))
        # the other whitespace options: blanks and newlines between terms, each option set under all six verbosity/stream variants
        if hasattr(e, 'lexterms'):
            oins = [list(b'if 1\n+ 2'), list(b'1\n2'), list(b' if\n'), list(b'\n')]
        else:
            oins = ws_inputs(e.g, 3, [32, 10], 70 if tier == 'quick' else 400)
            oins = [x for x in oins if 32 in x or 10 in x]
        for (ws, nl) in ((1, 0), (0, 1), (0, 0)):
            for (v, st) in ((1, 0), (0, 0), (1, 1), (0, 1), (1, 2), (0, 2)):
                pipeline.add_jobs(e, oins, verbose=bool(v), stream=st, ws=ws, nl=nl, tag='o%d%dv%ds%d_' % (ws, nl, v, st))
    res, work = prun.run(entries, 'C16', design_L=None, do_product=False, tlc_procs=4 if tier == 'quick' else 8, tlc_workers=4 if tier == 'quick' else 2, keep_lex=True)
    domain = {e.gid for e in entries}
    judge_traces(out, entries, res, {'lexer-lines', 'step', 'functor', 'report', 'recovery', 'position', 'verdict', 'tree', 'extra', 'threw', 'partial-line'}, domain, per_grammar=1)
    # outcome independence + stream text: all six runs of one input must agree; ostream text = captured lines
    ncmp = 0
    for e in entries:
        byin = collections.defaultdict(dict)
        for t in e.traces:
            byin[(tuple(t['bytes']), t['ws'], t['nl'])][(t['verbose'], t['stream'])] = t
        for (b, ws_, nl_), d in byin.items():
            ref = d.get((1, 0))
            if ref is None:
                continue
            for key, t in d.items():
                ncmp += 1
                if t['ok'] != ref['ok'] or json.dumps(t['tree']) != json.dumps(ref['tree']):
                    out.violations.append({'summary': {'grammar': e.gid, 'input': bytes(b).decode('latin-1'), 'class': 'outcome depends on verbosity/stream', 'skip_whitespace,skip_newline': [ws_, nl_],
                                                       'verbose,stream': key, 'ok': t['ok'], 'reference_ok': ref['ok']},
                                           'kind': 'parser', 'gname': e.g.name, 'mode': e.mode, 'gid': e.gid,
                                           'grammar': {'nts': e.g.nts, 'ts': e.g.ts, 'root': e.g.root, 'rules': e.g.rules, 'tprec': e.g.tprec, 'tassoc': e.g.tassoc},
                                           'bytes': list(b), 'ws': int(ws_), 'nl': int(nl_), 'verbose': key[0], 'stream': key[1], 'buf': 0})
            for v in (0, 1):
                cap, ost = d.get((v, 0)), d.get((v, 2))
                if cap and ost:
                    text = ''.join(ev[1] + '\n' for ev in cap['events'] if ev[0] == 'L') + cap.get('partial', '')
                    if text != ost['stream_text']:
                        out.violations.append({'summary': {'grammar': e.gid, 'input': bytes(b).decode('latin-1'), 'class': 'std::ostream text differs from the captured lines', 'verbose': v,
                                                           'ostream': ost['stream_text'][:200], 'captured': text[:200]},
                                               'kind': 'parser', 'gname': e.g.name, 'mode': e.mode, 'gid': e.gid,
                                               'grammar': {'nts': e.g.nts, 'ts': e.g.ts, 'root': e.g.root, 'rules': e.g.rules, 'tprec': e.g.tprec, 'tassoc': e.g.tassoc},
                                               'bytes': list(b), 'ws': int(ws_), 'nl': int(nl_), 'verbose': v, 'stream': 2, 'buf': 0})
            # the non-verbose lines appear unchanged and in order among the verbose ones
            cv, cn = d.get((1, 0)), d.get((0, 0))
            if cv and cn:
                vl = [ev[1] for ev in cv['events'] if ev[0] == 'L']
                i = 0
                for ln in [ev[1] for ev in cn['events'] if ev[0] == 'L']:
                    while i < len(vl) and vl[i] != ln:
                        i += 1
                    if i == len(vl):
                        out.violations.append({'summary': {'grammar': e.gid, 'input': bytes(b).decode('latin-1'), 'class': 'non-verbose line missing from the verbose stream', 'line': ln},
                                               'kind': 'parser', 'gname': e.g.name, 'mode': e.mode, 'gid': e.gid,
                                               'grammar': {'nts': e.g.nts, 'ts': e.g.ts, 'root': e.g.root, 'rules': e.g.rules, 'tprec': e.g.tprec, 'tassoc': e.g.tassoc},
                                               'bytes': list(b), 'ws': int(ws_), 'nl': int(nl_), 'verbose': 1, 'stream': 0, 'buf': 0})
                        break
                    i += 1
    out.violations = out.violations[:12]
    out.coverage = base_coverage(res, {
        'grammars': len(entries), 'runs_compared_across_verbosity_and_stream': ncmp, 'verbose_lines_validated': res.event_kinds.get('line', 0),
        'bounds': {'L_all_inputs_incl_unknown_byte_and_space': L, 'variants': 'verbose{on,off} x stream{capture, none, std::ostream}'},
        'samples': sample_traces(entries, 3), 'exhaustive': False})
    out.assumptions = std_assumptions()
    return out


# ======================================================================================= C05
def with_prec(g, name, tprec, tassoc, rprec=None):
    rules = [(l, r, (rprec or {}).get(i, p)) for i, (l, r, p) in enumerate(g.rules)]
    return gram.Grammar(name, g.nts, g.ts, g.root, rules, tprec, tassoc, g.tags)


def check_C05(tier, seed):
    out = Outcome()
    rng = random.Random(seed)
    L = 5 if tier == 'quick' else 7
    entries = []
    bases = catalogue('sr')
    nassign = 0
    for g in bases:
        ops = [t for t in g.ts if t not in ('n', 'x', 'i')]
        choices = [(p, a) for p in (0, 1, 2, -1) for a in (0, 1, 2)]
        combos = list(itertools.product(choices, repeat=len(ops)))
        if tier == 'quick' and len(combos) > 30:
            combos = rng.sample(combos, 30)
        elif len(combos) > 60:
            combos = rng.sample(combos, 60)       # (the catalogue of S/R grammars grew to 27: 250 assignments each were 5.9 million calls)
        entries += entries_for(g, hosts=(0,), gen=True)
        for ci, combo in enumerate(combos):
            tp = {o: c[0] for o, c in zip(ops, combo)}
            ta = {o: c[1] for o, c in zip(ops, combo)}
            rp = None
            if ci % 4 == 3:     # explicit rule precedences on some rules, including ones without any term
                rp = {i: rng.choice([1, 2, 3, -1, -2]) for i in range(len(g.rules)) if rng.random() < 0.4}
            g2 = with_prec(g, '%s_a%d' % (g.name, ci), tp, ta, rp)
            try:
                entries.append(pipeline.host_entry(g2, 0))
                nassign += 1
            except ValueError:
                pass
    # the operators declared as string / regex terms (each constructor overload carries precedence and associativity itself)
    kinds = ['string', 'regex', 'regexn']
    for gi, g in enumerate(bases):
        for k in range(1 if tier == 'quick' else 3):
            entries.append(pipeline.gen_entry(g, gid='%s@tk%d' % (g.name, k), tkinds={i: kinds[(i + gi + k) % 3] for i in range(len(g.ts))}))
    # random ambiguous grammars with random precedence declarations
    # (thorough: 120 grammars x <= 1500 inputs - the traces of 300 x 2500 took 26 GB in the orchestrator and the OOM killer ended the run)
    for i in range(20 if tier == 'quick' else 120):
        g = gengram.random_grammar(rng, 'rp%d_%d' % (seed, i), n_nt=rng.choice([1, 2]), n_t=3, max_rhs=3, prec=True)
        try:
            entries.append(pipeline.host_entry(g, 0))
        except ValueError:
            pass
    for e in entries:
        pipeline.add_jobs(e, all_inputs(e.g, L if len(e.g.ts) <= 3 else L - 1, 400 if tier == 'quick' else (500 if re.search(r'_a\d+$', e.g.name) else 1500)), verbose=True)
        for s in gengram.sentences(e.g, rng, 3 if tier == 'quick' else 12, max_len=25 if tier == 'quick' else 80):
            pipeline.add_jobs(e, [s], tag='s')
    # design level: on operator grammars the tree the specification builds from its resolved table must be the tree the four
    # rules define at TREE level (MCDriver!PrecedenceShapesTheTree - an oracle that knows no table), and no sentence is lost
    opg = [e.gid for e in entries if len(e.g.nts) == 1]
    if tier == 'quick':
        opg = opg[:12] + opg[12::4][:50]
    res, work = prun.run(entries, 'C05', design_L=5 if tier == 'quick' else 6, design_only=set(opg),
                         design_invs=['Safe', 'PrecedenceShapesTheTree', 'OperatorGrammarAcceptsItsLanguage'],
                         do_product=True, product_depth=8 if tier == 'quick' else 10,
                         tlc_procs=4 if tier == 'quick' else 8, tlc_workers=4 if tier == 'quick' else 2)
    if res.design_errors:
        raise Infra('the specification\'s resolved tables contradict the tree-level reading of the precedence rules (spec bug, or the rules are not what the table construction implements): ' + json.dumps(res.design_errors)[:3000])
    domain = {e.gid for e in entries if e.gid in res.conflicts and res.conflicts[e.gid]['rr'] == 0}
    with_sr = {g for g in domain if res.conflicts[g]['n'] > 0}
    judge_traces(out, entries, res, {'table', 'verdict', 'tree', 'step', 'functor'}, domain)
    out.notes += ['static difference: %s %s' % (g, json.dumps(d['why'])) for g, d in list(res.static.items())[:10] if g in domain]
    out.coverage = base_coverage(res, {
        'grammars': len(entries), 'precedence_assignments': nassign, 'grammars_with_sr_conflicts_per_spec': len(with_sr),
        'bounds': {'L_all_inputs': L, 'product_stack_depth': 8 if tier == 'quick' else 10},
        'samples': sample_traces([e for e in entries if e.gid in with_sr], 3), 'exhaustive': False})
    out.coverage['operator_grammars_checked_against_the_tree_level_oracle'] = sum(r.get('grammars', 0) for r in res.tlc_runs if r.get('kind') == 'design' and 'distinct' in r)
    out.assumptions = std_assumptions() + ['resolution oracle = readme "Precedence and associativity summary" rules 1-4 (LR1!PreferReduce); '
                                           'the API cannot distinguish an explicit rule precedence 0 from none (named deviation)']
    return out


# ======================================================================================= C11
def run_diagcheck(entries, workname, tlc_procs=4, tlc_workers=2):
    import diagparse
    work = pipeline.run_harness(entries, workname)
    live = [e for e in entries if e.dump is not None and e.diag is not None]
    tasks = []
    for ci, part in enumerate(pipeline.chunks(live, tlc_procs)):
        env, _ = pipeline.tlc_inputs(part, work, 'diag%d' % ci, with_traces=False)
        dp = os.path.join(work, 'diag%d.diags.ndjson' % ci)
        vlib.write_ndjson(dp, [diagparse.to_ids(diagparse.parse(e.diag), e.dump) for e in part])
        env['VERIF_DIAGS'] = dp
        cfg = pipeline.write_cfg(work, 'diag%d' % ci, 'Spec', ['DiagReported', 'LexReported', 'Summary'])
        tasks.append((part, (lambda env=env, cfg=cfg, ci=ci: vlib.run_tlc('DiagCheck', cfg, env, '%s_diag%d' % (workname, ci), workers=tlc_workers, timeout=1500))))
    outs = vlib.run_parallel([t[1] for t in tasks])
    problems, sums, runs = {}, {}, []
    st = tr = 0
    for (part, _), r in zip(tasks, outs):
        if r.exit != 0 or r.errors:
            raise Infra('DiagCheck failed: %s\n%s' % (r.errors[:3], r.out[-3000:]))
        st += r.distinct; tr += r.generated
        runs.append({'kind': 'diag', 'grammars': len(part), 'distinct': r.distinct, 'generated': r.generated, 'wall_s': round(r.wall, 1)})
        for d in r.lines.get('DIAG', []):
            problems[d['g']] = d
        for d in r.lines.get('DIAGLEX', []):
            problems.setdefault(d['g'], d)
        for d in r.lines.get('DIAGSUM', []):
            sums[d['g']] = d
    return live, problems, sums, runs, st, tr


def check_C11(tier, seed):
    out = Outcome()
    rng = random.Random(seed)
    entries = []
    for g in catalogue():
        entries += entries_for(g, hosts=(0, 1, 2))
    for g in catalogue('sr'):
        ops = [t for t in g.ts if t not in ('n', 'x', 'i')]
        choices = [(p, a) for p in (0, 1, 2) for a in (0, 1, 2)]
        combos = list(itertools.product(choices, repeat=len(ops)))
        combos = rng.sample(combos, min(len(combos), 12 if tier == 'quick' else 120))
        for ci, combo in enumerate(combos):
            g2 = with_prec(g, '%s_d%d' % (g.name, ci), {o: c[0] for o, c in zip(ops, combo)}, {o: c[1] for o, c in zip(ops, combo)})
            entries += entries_for(g2, hosts=(0,), gen=(ci < 3))
    for i in range(60 if tier == 'quick' else 800):
        g = gengram.random_grammar(rng, 'rd%d_%d' % (seed, i), n_nt=rng.choice([1, 2, 3]), n_t=rng.choice([2, 3]), max_rhs=3, prec=bool(i % 2), error=(i % 5 == 0))
        try:
            entries.append(pipeline.host_entry(g, 1 if g.has_error() else 0))
        except ValueError:
            pass
    small = gengram.small_grammars(stride=53 if tier == 'quick' else 7, limit=120 if tier == 'quick' else 2000, max_rules=3, max_rhs=2)
    for g in small:
        g.name = 'd' + g.name
        try:
            entries.append(pipeline.host_entry(g, 2))
        except ValueError:
            pass
    import lx as lxl
    fams = [ts for ts in lxl.FAMILIES if not any(t[0] == 'C' and t[1] == ord('.') for t in ts)]      # a term printed as "." is indistinguishable from the item dot
    fams = [ts for ts in fams if pipeline.unique_term_names(ts)]          # (symbols are resolved by name: equal names alias)
    for i, ts in enumerate(fams[:5 if tier == 'quick' else 17]):          # richer LEXICAL ANALYZER sections (string / regex terms)
        entries.append(pipeline.lex_entry('c11lex%d' % i, ts))
    live, problems, sums, runs, st, tr = run_diagcheck(entries, 'C11', tlc_procs=4 if tier == 'quick' else 8)
    by_gid = {e.gid: e for e in live}
    per = collections.Counter()
    for gid, d in sorted(problems.items()):
        e = by_gid[gid]
        cls = d['why'][0]
        per[(e.g.name.split('_d')[0], cls)] += 1
        per[cls] += 1
        if per[(e.g.name.split('_d')[0], cls)] > 1 or per[cls] > 4:
            continue
        out.violations.append({'summary': {'grammar': gid, 'rules': ['%s -> %s%s' % (l, ' '.join(r) or 'eps', ' [%d]' % p if p else '') for (l, r, p) in e.g.rules],
                                           'tprec': e.g.tprec, 'tassoc': e.g.tassoc, 'problem': d['why']},
                               'kind': 'diag', 'gname': e.g.name, 'mode': e.mode, 'gid': gid,
                               'grammar': {'nts': e.g.nts, 'ts': e.g.ts, 'root': e.g.root, 'rules': e.g.rules, 'tprec': e.g.tprec, 'tassoc': e.g.tassoc}})
    nconf = sum(1 for g, d in sums.items() if d['conflicts'] > 0)
    nrr = sum(1 for g, d in sums.items() if d['rr'] > 0)
    out.coverage = {'states': int(st), 'transitions': int(max(tr, 1)), 'traces_validated_against_impl': 0,
                    'diagnostic_texts_checked': len(live), 'action_lines_checked': sum(d['lines'] for d in sums.values()),
                    'grammars_with_conflicts_per_spec': nconf, 'grammars_with_rr_conflicts_per_spec': nrr,
                    'grammars_without_conflicts_per_spec': len(sums) - nconf, 'tlc_runs': runs,
                    'samples': [{'grammar': e.gid, 'rules': ['%s -> %s' % (l, ' '.join(r) or 'eps') for (l, r, _) in e.g.rules],
                                 'diag_excerpt': [l for l in e.diag.split('\n') if 'CONFLICT' in l][:4]} for e in live if sums.get(e.gid, {}).get('conflicts', 0) > 0][:3],
                    'exhaustive': False}
    out.assumptions = ['TLC + JSON reader', 'tools/diagparse.py (line patterns only; names resolved through the parser\'s own name tables)',
                       'the dumped table is the executed one (bound to executions by the trace validation of C01/C02/C05/C16)']
    return out


# ======================================================================================= C03 / C17 (regex layer)
def rx_items_check(recs, workname, tlc_procs=4, tlc_workers=2):
    import rx as rxl
    items = [rxl.to_item(r) for r in recs if r and r['built']]
    work = vlib.scratch(workname)
    tasks = []
    for ci, part in enumerate(pipeline.chunks(items, tlc_procs)):
        ip = os.path.join(work, 'rx%d.items.ndjson' % ci)
        vlib.write_ndjson(ip, part)
        cfg = pipeline.write_cfg(work, 'rx%d' % ci, 'Spec', ['RefReported', 'ModelReported', 'StaticReported'], view='vw')
        tasks.append((part, (lambda ip=ip, cfg=cfg, ci=ci: vlib.run_tlc('RxCheck', cfg, {'VERIF_RX': ip}, '%s_rx%d' % (workname, ci), workers=tlc_workers, timeout=1500))))
    outs = vlib.run_parallel([t[1] for t in tasks])
    ref, model, static = collections.defaultdict(list), collections.defaultdict(list), {}
    st = tr = 0
    runs = []
    for (part, _), r in zip(tasks, outs):
        if r.exit != 0 or r.errors:
            raise Infra('RxCheck failed: %s\n%s' % (r.errors[:3], r.out[-3000:]))
        st += r.distinct; tr += r.generated
        runs.append({'kind': 'rx-product', 'patterns': len(part), 'distinct': r.distinct, 'generated': r.generated, 'wall_s': round(r.wall, 1)})
        for d in r.lines.get('RXREF', []):
            ref[d['id']].append(d)
        for d in r.lines.get('RXMODEL', []):
            model[d['id']].append(d)
        for d in r.lines.get('RXSTATIC', []):
            static[d['id']] = d
    return {i['id']: i for i in items}, ref, model, static, st, tr, runs


def syntax_check(recs, workname, tlc_procs=4, tlc_workers=2):
    items = []
    for r in recs:
        if r is None:
            continue
        oob = sum(1 for e in r['reads1'] + r['reads2'] if e[0] in ('oobread', 'oobview'))
        calls = []
        if r['valid'] and r['built']:
            for c in r['calls']:
                if c['op'] == 'char':
                    calls.append({'op': 'set', 'ranges': [[c['a'][0], c['a'][0]]], 'n': 0})
                else:
                    calls.append({'op': c['op'], 'ranges': c['ranges'], 'n': c['a'][0] if c['op'] == 'rep' else 0})
        items.append({'id': r['id'], 'pat': r['pattern'], 'valid': r['valid'], 'oob': oob, 'calls': calls})
    work = vlib.scratch(workname)
    tasks = []
    for ci, part in enumerate(pipeline.chunks(items, tlc_procs)):
        ip = os.path.join(work, 'syn%d.items.ndjson' % ci)
        vlib.write_ndjson(ip, part)
        cfg = pipeline.write_cfg(work, 'syn%d' % ci, 'Spec', ['SynReported', 'ClassReported'])
        tasks.append((part, (lambda ip=ip, cfg=cfg, ci=ci: vlib.run_tlc('SyntaxCheck', cfg, {'VERIF_SYN': ip}, '%s_syn%d' % (workname, ci), workers=tlc_workers, timeout=1500))))
    outs = vlib.run_parallel([t[1] for t in tasks])
    probs, classes = [], collections.Counter()
    syntax_check.cls_by_id = {}
    st = tr = 0
    for (part, _), r in zip(tasks, outs):
        if r.exit != 0 or r.errors:
            raise Infra('SyntaxCheck failed: %s\n%s' % (r.errors[:3], r.out[-3000:]))
        st += r.distinct; tr += r.generated
        probs += r.lines.get('SYN', [])
        for d in r.lines.get('SYNCLASS', []):
            classes[(d['c'], d['valid'])] += 1
            syntax_check.cls_by_id[d['id']] = d['c']
    return probs, classes, st, tr


def pat_text(b):
    return bytes(b).decode('latin-1')


BLANK_PATTERNS = ['a b', ' ', ' +', ' *a', 'a *', '[a-z]+ [0-9]+', '(x y){3}', 'if +then', 'a |b', '( )', '[ ]', '[^ ]', 'a  b', '( a){2}', ' ?x', '\tx', 'a\tb']


def check_C03(tier, seed):
    import rx as rxl
    out = Outcome()
    rng = random.Random(seed)
    pats = []
    for n in (1, 2, 3) if tier == 'quick' else (1, 2, 3, 4):
        pats += [rxl.render(a) for a in rxl.enum_asts(n)]
    pats += [rxl.render(a) for a in rxl.enum_asts(4)][::6] if tier == 'quick' else [rxl.render(a) for a in rxl.enum_asts(5)][::23]
    pats += rxl.repo_patterns()
    pats += rxl.primary_forms(tier) + BLANK_PATTERNS
    pats += ['a*a', '(ab|ac)*', '(a|ab)c', '(a*b)*', 'a?a', '(ab)+a', 'a*b*a', '(a|b)*abb', '.*b', '[a-z]+[0-9]*', '(a{2}){3}', 'a{10}', '(a|b){4}c',
             '\\x41\\x7[\\x80-\\xff]'.replace('\\\\', '\\'), '/\\*.*\\*/'.replace('\\\\', '\\'), '"[^"]*"', '[_a-zA-Z][_a-zA-Z0-9]*', '0|[1-9][0-9]*', '1{2}3', '[0-9]+\\.[0-9]+'.replace('\\\\', '\\'),
             # escaped LETTERS denote themselves, upper and lower case alike (only a lower-case \\x starts a hex escape)
             '\\X', 'a\\Xb+', '[\\Xa]', '[^\\X]', '\\A\\F', '[\\X41]', '\\y', '10', '20[0-9][0-9]',
             # a loop whose end state leaves on a byte to an END state while the loop's entry leaves on the same byte to a NON-end state:
             # star()'s nested merge overwrites the flag, plus()'s keeps it (mutant m11 swaps the two)
             '(ab|ca?)*', '(ab|ca?)+', '(abc|da?b?)*', '((ab|ca?)*d)*', '(ab|ca?)*a']
    for i in range(200 if tier == 'quick' else 3000):
        pats.append(rxl.random_pattern(rng, depth=rng.choice([2, 3, 4])))
    seen, jobs = set(), []
    for ptxt in pats:
        if ptxt in seen:
            continue
        seen.add(ptxt)
        jobs.append(('p%d' % len(jobs), list(ptxt.encode('latin-1')), []))
    recs, crashed, work = rxl.run_rx(jobs, 'C03')
    if crashed:
        out.notes.append('rx driver died on: %s' % json.dumps(crashed)[:300])
    byid = {j[0]: j for j in jobs}
    items, ref, model, static, st, tr, runs = rx_items_check(recs, 'C03tlc', tlc_procs=4 if tier == 'quick' else 8)
    sprobs, classes, st2, tr2 = syntax_check(recs, 'C03syn', tlc_procs=4 if tier == 'quick' else 8)
    # ---- execute the shortest witness of every failing pattern on the real matcher
    wjobs = []
    for pid in set(ref) | set(model):
        ws = sorted(ref.get(pid, []) + model.get(pid, []), key=lambda d: len(d['w']))[:2]
        strs = [rxl.witness_bytes(items[pid], d['w']) for d in ws] + [rxl.witness_bytes(items[pid], d['w'], rng) for d in ws]
        wjobs.append((pid, byid[pid][1], strs))
    wrecs, crashed2, _ = rxl.run_rx(wjobs, 'C03w') if wjobs else ([], [], None)
    confirmed = {}
    for (pid, pat, strs), r in zip(wjobs, wrecs):
        if r is None or not r['built']:
            continue
        ws = sorted(ref.get(pid, []) + model.get(pid, []), key=lambda d: len(d['w']))[:2]
        for d, m in zip(ws + ws, r['matches']):
            real_acc = (m['idx'] == 0 and m['len'] == len(m['s']))
            if real_acc == d['real']:
                confirmed.setdefault(pid, []).append({'string': m['s'], 'real_accepts': real_acc, 'pattern_language_contains': d.get('ref', None)})
    k1 = known_match('C03', 'rx-design')
    k1_cases = []
    cls = dict(syntax_check.cls_by_id)
    for pid in sorted(set(ref) | set(model) | set(static)):
        ptxt = pat_text(byid[pid][1])
        if cls.get(pid) != 'documented' and pid not in model and pid not in static:
            out.notes.append('pattern outside the documented syntax, no verdict from its language: %r' % ptxt)
            continue
        deviates = pid in model or (pid in static and static[pid]['why'][0] in ('returned-slice', 'call-sequence-not-a-tree', 'state', 'size-used', 'entry-point-rejects'))
        if deviates:
            out.violations.append({'summary': {'pattern': ptxt, 'class': 'real automaton deviates from the modelled builder AND from the pattern language' if pid in ref else 'real automaton deviates from the modelled builder',
                                               'model_mismatch': model.get(pid, [None])[0], 'static': static.get(pid), 'executed': confirmed.get(pid, [])[:2]},
                                   'kind': 'rx', 'pattern': byid[pid][1]})
        elif pid in ref:
            if not confirmed.get(pid):
                raise Infra('witness of %r not reproduced by the real matcher' % ptxt)
            if k1:
                k1_cases.append((ptxt, confirmed[pid][0]))
            else:
                out.violations.append({'summary': {'pattern': ptxt, 'class': 'language differs from the pattern', 'executed': confirmed[pid][:2]}, 'kind': 'rx', 'pattern': byid[pid][1]})
    for d in sprobs:
        if d['why'][0] in ('meaning', 'rejected-documented'):
            out.violations.append({'summary': {'pattern': pat_text(d['pat']), 'class': 'syntax layer: ' + d['why'][0], 'library_accepts': d['valid']}, 'kind': 'rx', 'pattern': d['pat']})
    exstats, st3, tr3 = rxexpr_language_section(out, tier, rng)
    st2 += st3; tr2 += tr3
    out.violations = out.violations[:12]
    if k1_cases:
        ex = '; '.join('%r rejects/accepts %r wrongly' % (p, bytes(c['string']).decode('latin-1')) for p, c in k1_cases[:4])
        out.known.append('K1 in-place DFA merging (no subset construction): %d of %d patterns fail exactly as the modelled design fails, e.g. %s' % (len(k1_cases), len(items), ex))
    out.coverage = {'states': int(st + st2), 'transitions': int(max(tr + tr2, 1)), 'traces_validated_against_impl': len(items),
                    'patterns': len(jobs), 'patterns_built': len(items), 'patterns_language_equal': len(items) - len(set(ref) | set(model)),
                    'patterns_failing_as_modelled_design_K1': len(k1_cases), 'patterns_deviating_from_model': len(out.violations), 'regex_expr_standalone_matcher': exstats,
                    'witnesses_executed_on_real_matcher': sum(len(v) for v in confirmed.values()),
                    'syntax_classes(documented/unspecified/reject x library accepts)': {'%s,%s' % k: v for k, v in classes.items()},
                    'tlc_runs': runs, 'bounds': {'ast_sizes_exhaustive': 3 if tier == 'quick' else 4, 'alphabet': 'full 256 bytes through per-pattern segments'},
                    'samples': [{'pattern': pat_text(byid[pid][1]), 'calls': [c['op'] for c in recs[int(pid[1:])]['calls']], 'states': len(items[pid]['dfa']), 'segments': items[pid]['segs']} for pid in list(items)[:3]],
                    'exhaustive': False}
    out.assumptions = ['TLC + JSON reader', 'segment abstraction of the byte alphabet (exact: the segmentation is refined by the real rows, argument in DESIGN.md C03)',
                       'each recorded builder call sequence is replayed on the TLA+ transcription of dfa_builder (trace validation of the builder)',
                       'K1 attribution: a failing pattern is a known finding only if real automaton and modelled automaton agree on every string']
    return out


def rxexpr_language_section(out, tier, rng):
    """C03 for the standalone matcher itself: regex::expr<P> objects (automata built in constant evaluation) - their dumped
    automaton against the modelled builder and the pattern's language (RxCheck product), and the verdict of every match
    overload on given strings against TLC's walk (RxCheck!GivenSpec); the same verdicts as static_asserts."""
    import rx as rxl, re as _re
    src = open(os.path.join(vlib.HARNESS, 'rxexpr.cpp')).read()
    pats = {}
    for m in _re.finditer(r'constexpr char p(\d+)\[\] = "((?:[^"\\]|\\.)*)";', src):
        pats[int(m.group(1))] = bytes(m.group(2), 'latin-1').decode('unicode_escape')
    mrecs, mcrash = run_rxexpr(rng, tier)
    if mcrash:
        out.violations.append({'summary': {'class': 'regex::expr::match crashed the process', 'detail': mcrash}, 'kind': 'rxexpr', 'pattern': '', 'string': []})
    dumps = {r['dump']: r['dfa'] for r in mrecs if 'dump' in r}
    bypat = collections.defaultdict(list)
    for r in mrecs:
        if 'pattern' in r:
            bypat[r['pattern']].append(r)
    jobs = [('e%d' % i, list(p.encode('latin-1')), []) for i, p in sorted(pats.items()) if p in dumps]
    recs, crashed, _ = rxl.run_rx(jobs, 'C03ex')
    items, strs_of = [], {}
    for j, r in zip(jobs, recs):
        if r is None or not r['built']:
            continue
        ptxt = pat_text(j[1])
        r2 = dict(r); r2['dfa'] = dumps[ptxt]                   # the automaton of the compile-time object, not the run-time build
        it = rxl.to_item(r2)
        strs = sorted({tuple(m['s']) for m in bypat[ptxt]})
        segof = lambda b: [k + 1 for k, (lo, hi) in enumerate(it['segs']) if lo <= b <= hi][0]
        it['giv'] = [[segof(b) for b in s_] for s_ in strs]
        strs_of[it['id']] = (ptxt, strs)
        items.append(it)
    work = vlib.scratch('C03exg')
    ip = os.path.join(work, 'items.ndjson')
    vlib.write_ndjson(ip, items)
    cfg1 = pipeline.write_cfg(work, 'prod', 'Spec', ['RefReported', 'ModelReported', 'StaticReported'], view='vw')
    cfg2 = pipeline.write_cfg(work, 'given', 'GivenSpec', ['GivenReported'])
    r1, r2 = vlib.run_parallel([lambda: vlib.run_tlc('RxCheck', cfg1, {'VERIF_RX': ip}, 'C03ex_prod', workers=2, timeout=900),
                                lambda: vlib.run_tlc('RxCheck', cfg2, {'VERIF_RX': ip}, 'C03ex_given', workers=2, timeout=900)])
    for r in (r1, r2):
        if r.exit != 0 or r.errors:
            raise Infra('RxCheck (regex::expr section) failed: %s\n%s' % (r.errors[:3], r.out[-2000:]))
    deviates = {d['id'] for d in r1.lines.get('RXMODEL', [])} | {d['id'] for d in r1.lines.get('RXSTATIC', []) if d['why'][0] in ('state', 'size-used', 'returned-slice')}
    for pid in sorted(deviates):
        out.violations.append({'summary': {'pattern': strs_of[pid][0], 'class': 'the automaton of the compile-time regex::expr object deviates from the modelled builder'}, 'kind': 'rxexpr', 'pattern': strs_of[pid][0], 'string': []})
    expected, k1 = {}, 0
    for d in r2.lines.get('RXGIVEN', []):
        ptxt, strs = strs_of[d['id']]
        s_ = strs[d['k'] - 1]
        expected[(ptxt, s_)] = d
        if d['real'] != d['ref']:
            if d['model'] == d['real'] and known_match('C03', 'rx-design'):
                k1 += 1
            else:
                out.violations.append({'summary': {'pattern': ptxt, 'string': list(s_)[:40], 'class': 'regex::expr: language differs from the pattern', 'automaton_accepts': d['real'], 'pattern_language_contains': d['ref']},
                                       'kind': 'rxexpr', 'pattern': ptxt, 'string': list(s_)})
    nm = 0
    for r in mrecs:
        if 'pattern' not in r:
            continue
        d = expected.get((r['pattern'], tuple(r['s'])))
        if d is None:
            continue
        nm += 1
        if r['match'] != d['real'] and not r.get('threw'):
            out.violations.append({'summary': {'pattern': r['pattern'], 'string': r['s'][:40], 'overload/buffer': ['match(buffer, stream) checked', 'match(buffer, stream) string_buffer', 'match(buffer) string_view_buffer', 'match(options, buffer, stream) verbose'][r['buf']],
                                               'class': 'regex::expr::match verdict differs from what its own automaton accepts', 'match_returned': r['match'], 'automaton_accepts': d['real']},
                                   'kind': 'rxexpr', 'pattern': r['pattern'], 'string': r['s']})
    # the same verdicts in constant evaluation: match(string literal)
    ct = ['#include <ctpg/ctpg.hpp>', 'using namespace ctpg;']
    nct = 0
    for i, p in sorted(pats.items()):
        ct.append('constexpr char q%d[] = "%s";' % (i, ''.join('\\%03o' % b for b in p.encode('latin-1'))))
        ct.append('constexpr regex::expr<q%d> x%d;' % (i, i))
    for (ptxt, s_), d in sorted(expected.items()):
        if d['real'] != d['ref'] or len(s_) > 40:
            continue
        i = [k for k, p in pats.items() if p == ptxt][0]
        ct.append('static_assert(x%d.match("%s") == %s, "RXCT %d");' % (i, ''.join('\\%03o' % b for b in s_), 'true' if d['ref'] else 'false', nct))
        nct += 1
    ct.append('int main() { return 0; }')
    cp = os.path.join(work, 'rxexpr_ct.cpp')
    open(cp, 'w').write('\n'.join(ct) + '\n')
    inc = os.path.join(vlib.REPO, 'include')
    crs = vlib.run_parallel([lambda: subprocess.run(['g++', '-std=c++17', '-fsyntax-only', '-fconstexpr-ops-limit=1000000000', '-I' + inc, cp], capture_output=True, text=True, timeout=1200),
                             lambda: subprocess.run(['clang++', '-std=c++17', '-fsyntax-only', '-fconstexpr-steps=1000000000', '-I' + inc, cp], capture_output=True, text=True, timeout=1200)])
    for comp, cr in zip(('g++', 'clang++'), crs):
        if cr.returncode != 0:
            out.violations.append({'summary': {'class': 'regex::expr::match(string literal) in constant evaluation fails or differs from the pattern language (%s)' % comp, 'compiler_says': cr.stderr[:600]},
                                   'kind': 'rxexpr', 'pattern': '', 'string': []})
    return {'regex_expr_objects': len(items), 'match_calls_compared': nm, 'static_asserts_per_compiler': nct, 'k1_attributed_strings': k1}, r1.distinct + r2.distinct, r1.generated + r2.generated


def grammar_wf_check(tier, work):
    """C17, grammar half: generated TUs with undeclared symbols (and well-formed controls)."""
    variants = []
    base_rules = [('S', ['A', 'a']), ('S', ['b']), ('A', ['a', 'A']), ('A', [])]

    def add(name, nterms, terms, root, rules, objs_nt, objs_t):
        # a right-side symbol is a name (a nonterminal object if one of that name exists, else a term object) or (kind, name)
        kinded = lambda x: {'k': x[0], 's': x[1]} if isinstance(x, tuple) else {'k': 'n' if x in objs_nt else 't', 's': x}
        variants.append({'id': name, 'nterms': nterms, 'terms': terms, 'root': root, 'rules': [{'l': l, 'r': [kinded(x) for x in r]} for l, r in rules], 'objs_nt': objs_nt, 'objs_t': objs_t})
    add('ok', ['S', 'A'], ['a', 'b'], 'S', base_rules, ['S', 'A'], ['a', 'b'])
    add('ok_unused', ['S', 'A', 'U'], ['a', 'b', 'q'], 'S', base_rules, ['S', 'A', 'U'], ['a', 'b', 'q'])
    add('undeclared_term_in_rule', ['S', 'A'], ['a'], 'S', base_rules, ['S', 'A'], ['a', 'b'])
    add('undeclared_nterm_in_rule', ['S'], ['a', 'b'], 'S', base_rules, ['S', 'A'], ['a', 'b'])
    add('undeclared_lhs', ['S'], ['a', 'b'], 'S', [('S', ['a']), ('A', ['b'])], ['S', 'A'], ['a', 'b'])
    add('undeclared_root', ['A'], ['a', 'b'], 'S', [('A', ['a'])], ['S', 'A'], ['a', 'b'])
    add('undeclared_term_last', ['S', 'A'], ['a', 'b'], 'S', base_rules + [('A', ['a', 'b', 'c'])], ['S', 'A'], ['a', 'b', 'c'])
    add('undeclared_only_in_unreachable_rule', ['S', 'A', 'U'], ['a', 'b'], 'S', base_rules + [('U', ['z'])], ['S', 'A', 'U'], ['a', 'b', 'z'])
    add('empty_nterm_name', ['S', ''], ['a', 'b'], 'S', [('S', ['a'])], ['S', ''], ['a', 'b'])
    # names that are prefixes / extensions of declared names (symbol lookup must compare whole names)
    add('undeclared_nterm_extends_declared', ['S', 'A'], ['a', 'b'], 'S', base_rules + [('S', ['AB', 'b'])], ['S', 'A', 'AB'], ['a', 'b'])
    add('undeclared_nterm_prefix_of_declared', ['S', 'AB'], ['a', 'b'], 'S', [('S', ['AB', 'a']), ('S', ['A', 'b']), ('AB', ['b'])], ['S', 'AB', 'A'], ['a', 'b'])
    add('undeclared_term_extends_declared', ['S', 'A'], ['a', 'b'], 'S', base_rules + [('A', ['ab', 'b'])], ['S', 'A'], ['a', 'b', 'ab'])
    add('undeclared_term_prefix_of_declared', ['S', 'A'], ['ab', 'b'], 'S', [('S', ['A', 'ab']), ('S', ['b']), ('A', ['a', 'A']), ('A', [])], ['S', 'A'], ['ab', 'b', 'a'])
    add('undeclared_lhs_extends_declared', ['S'], ['a', 'b'], 'S', [('S', ['a']), ('SS', ['b'])], ['S', 'SS'], ['a', 'b'])
    # non-printable character terms: their ids are the two-digit hex names (both digits matter)
    add('undeclared_ctl_term_same_low_nibble', ['S', 'A'], ['\x01', 'b'], 'S', [('S', ['A', '\x01']), ('S', ['b']), ('A', ['\x11', 'A']), ('A', [])], ['S', 'A'], ['\x01', 'b', '\x11'])
    add('undeclared_ctl_term_same_high_nibble', ['S', 'A'], ['\x12', 'b'], 'S', [('S', ['A', '\x12']), ('S', ['b']), ('A', ['\x13', 'A']), ('A', [])], ['S', 'A'], ['\x12', 'b', '\x13'])
    add('undeclared_high_bit_term', ['S', 'A'], ['\xc3', 'b'], 'S', [('S', ['A', '\xc3']), ('S', ['b']), ('A', ['\xa3', 'A']), ('A', [])], ['S', 'A'], ['\xc3', 'b', '\xa3'])
    add('ok_ctl_terms_all_declared', ['S'], ['\x01', '\x11', '\x81'], 'S', [('S', ['\x01', '\x11']), ('S', ['\x81'])], ['S'], ['\x01', '\x11', '\x81'])
    add('ok_prefix_names_all_declared', ['S', 'SS'], ['a', 'ab'], 'S', [('S', ['SS', 'a']), ('SS', ['ab'])], ['S', 'SS'], ['a', 'ab'])
    # a term and a nonterminal of the SAME name: declaring one does not declare the other
    add('undeclared_term_named_like_declared_nterm', ['S', 'item'], ['a'], 'S', [('S', [('t', 'item'), 'a']), ('item', ['a'])], ['S', 'item'], ['a', 'item'])
    add('undeclared_nterm_named_like_declared_term', ['S'], ['a', 'num'], 'S', [('S', [('n', 'num'), 'a']), ('S', [('t', 'num')])], ['S', 'num'], ['a', 'num'])
    add('ok_term_and_nterm_share_a_name', ['S', 'item'], ['a', 'item'], 'S', [('S', [('n', 'item'), ('t', 'item')]), ('item', ['a'])], ['S', 'item'], ['a', 'item'])
    # a regex term whose PATTERN is the text of an undeclared string / char term: its id is r_<pattern>, not the pattern
    add('undeclared_string_equals_declared_regex_pattern', ['S'], ['a', 'r:abc'], 'S', [('S', [('t', 'abc'), 'a']), ('S', [('t', 'r:abc')])], ['S'], ['a', 'r:abc', 'abc'])
    add('undeclared_char_equals_declared_regex_pattern', ['S'], ['a', 'r:x'], 'S', [('S', [('t', 'x'), 'a']), ('S', [('t', 'r:x')])], ['S'], ['a', 'r:x', 'x'])
    add('ok_regex_and_string_of_one_text', ['S'], ['abc', 'r:abc'], 'S', [('S', [('t', 'abc'), ('t', 'r:abc')])], ['S'], ['abc', 'r:abc'])
    items = []
    jobs = []
    inc = os.path.join(vlib.REPO, 'include')
    for v in variants:
        ntv = {n: 'n%d' % i for i, n in enumerate(v['objs_nt'])}
        tv = {t: 't%d' % i for i, t in enumerate(v['objs_t'])}
        decl = ['#include <ctpg/ctpg.hpp>', '#include <cstdio>', '#include <stdexcept>', 'using namespace ctpg;']
        body = []
        for n, var in ntv.items():
            body.append('nterm<int> %s("%s");' % (var, n))
        for t, var in tv.items():
            if t.startswith('r:'):
                decl.append('constexpr char pat_%s[] = "%s";' % (var, t[2:]))
                body.append('regex_term<pat_%s> %s("rx_%s");' % (var, var, var))
            elif len(t) == 1:
                o1 = ord(t)
                body.append('char_term %s(\'%s\');' % (var, t) if 32 < o1 < 127 and t not in "'\\" else 'char_term %s(char(%d));' % (var, o1 if o1 < 128 else o1 - 256))
            else:
                body.append('string_term %s("%s");' % (var, t))
        rl = ['%s(%s) >= [](auto&&...) { return 0; }' % (ntv[r['l']], ', '.join(ntv[x['s']] if x['k'] == 'n' else tv[x['s']] for x in r['r'])) for r in v['rules']]
        pexpr = 'parser(%s, terms(%s), nterms(%s), rules(%s))' % (ntv[v['root']], ', '.join(tv[t] for t in v['terms']), ', '.join(ntv[n] for n in v['nterms']), ', '.join(rl))
        rt = decl + ['int main() { try {'] + ['  ' + b for b in body] + ['  auto* p = new auto(%s); (void)p; printf("CONSTRUCTED\\n"); return 0;' % pexpr,
                                                                       '} catch (const std::exception& e) { printf("THREW %s\\n", e.what()); return 0; } }']
        ct = decl + ['constexpr ' + b for b in body] + ['constexpr auto p = %s;' % pexpr, 'int main() { return 0; }']
        sp = os.path.join(work, 'wf_' + v['id'])
        open(sp + '_rt.cpp', 'w').write('\n'.join(rt) + '\n')
        open(sp + '_ct.cpp', 'w').write('\n'.join(ct) + '\n')
        jobs.append((v, 'rt', lambda sp=sp: subprocess.run('g++ -std=c++17 -I%s %s_rt.cpp -o %s_rt && (ulimit -s unlimited; %s_rt)' % (inc, sp, sp, sp), shell=True, capture_output=True, text=True, timeout=900)))
        jobs.append((v, 'ct', lambda sp=sp: subprocess.run(['g++', '-std=c++17', '-fsyntax-only', '-I' + inc, sp + '_ct.cpp'], capture_output=True, text=True, timeout=900)))
        jobs.append((v, 'ctc', lambda sp=sp: subprocess.run(['clang++', '-std=c++17', '-fsyntax-only', '-fconstexpr-steps=500000000', '-I' + inc, sp + '_ct.cpp'], capture_output=True, text=True, timeout=900)))
    rs = vlib.run_parallel([j[2] for j in jobs])
    by = collections.defaultdict(dict)
    for (v, kind, _), r in zip(jobs, rs):
        by[v['id']][kind] = r
    for v in variants:
        r = by[v['id']]
        if r['rt'].returncode != 0 and 'CONSTRUCTED' not in r['rt'].stdout and 'THREW' not in r['rt'].stdout:
            raise Infra('well-formedness TU %s did not build/run: %s' % (v['id'], (r['rt'].stderr or r['rt'].stdout)[-600:]))
        ct_errs = [r[k].stderr for k in ('ct', 'ctc') if r[k].returncode != 0]
        for e in ct_errs:
            if 'constant expression' not in e and 'constexpr' not in e:
                raise Infra('compile-time TU %s failed for an unrelated reason: %s' % (v['id'], e[:600]))
        tid_ = lambda t: 'r_' + t[2:] if t.startswith('r:') else t          # (the id a term is known by in rules)
        items.append({'id': v['id'], 'nterms': v['nterms'], 'terms': [tid_(t) for t in v['terms']], 'root': v['root'],
                      'rules': [{'l': r['l'], 'r': [dict(x, s=tid_(x['s'])) if x['k'] == 't' else x for x in r['r']]} for r in v['rules']],
                      'constructed': 'CONSTRUCTED' in r['rt'].stdout, 'threw': r['rt'].stdout.strip()[-80:], 'ct_ok': r['ct'].returncode == 0 and r['ctc'].returncode == 0})
    ip = os.path.join(work, 'wf.items.ndjson')
    vlib.write_ndjson(ip, items)
    cfg = pipeline.write_cfg(work, 'wf', 'Spec', ['Reported', 'Classes'])
    r = vlib.run_tlc('GrammarWF', cfg, {'VERIF_WF': ip}, 'C17_wf', workers=2, timeout=600)
    if r.exit != 0 or r.errors:
        raise Infra('GrammarWF failed: %s\n%s' % (r.errors[:3], r.out[-1500:]))
    classes = {d['id']: d['wf'] for d in r.lines.get('WFCLASS', [])}
    return r.lines.get('WF', []), items, classes, r


def check_C17(tier, seed):
    import rx as rxl
    out = Outcome()
    rng = random.Random(seed)
    alpha = [ord(c) for c in 'ab1()[]^-*+?{}|\\.x'.replace('\\\\', '\\')] + [1, 0x80]
    jobs = []
    nmax = 3 if tier == 'quick' else 4
    for n in range(0, nmax + 1):
        for t in itertools.product(alpha, repeat=n):
            jobs.append(('t%d' % len(jobs), list(t), []))
    for i in range(3000 if tier == 'quick' else 60000):
        n = rng.choice([4, 5, 6, 7, 8]) if tier == 'quick' else rng.choice([5, 6, 7, 8, 9, 10])
        jobs.append(('t%d' % len(jobs), [rng.choice(alpha) for _ in range(n)], []))
    # every byte value in operator / operand / set / escape positions (byte classes: control, high bit, aliases of the
    # metacharacters modulo 128 or with the sign bit set)
    A, B = ord('a'), ord('b')
    for v in range(256):
        for t in ([A, v], [v, A], [A, v, B], [ord('('), A, v], [ord('['), v, ord(']')], [ord('['), A, ord('-'), v, ord(']')], [ord('\\'), v], [A, ord('{'), v, ord('}')]):
            jobs.append(('t%d' % len(jobs), t, []))
        # ... and in every place of a character set: start of a range, second member, start of a second range, behind '^',
        # against an escaped other end
        LB, RB, DASH, TIL, X = ord('['), ord(']'), ord('-'), ord('~'), ord('x')
        for t in ([LB, v, DASH, TIL, RB], [LB, X, v, RB], [LB, X, v, DASH, TIL, RB], [LB, ord('^'), v, DASH, TIL, RB], [LB, ord('^'), X, v, RB],
                  [LB, v, DASH, ord('\\'), ord('x'), ord('7'), ord('e'), RB], [LB, ord('\\'), ord('x'), ord('0'), ord('1'), DASH, v, RB], [LB, A, DASH, B, v, RB]):
            jobs.append(('t%d' % len(jobs), t, []))
    for ptxt in ('a*', 'a+b', 'a?', '(ab)c', 'a{3}', '[0-9]+', 'a|b', '(a|b)*c', 'a{2}b', '[ab]?', '.a', 'a\\+'):
        b0 = list(ptxt.replace('\\\\', '\\').encode('latin-1'))
        meta = [i for i, c in enumerate(b0) if chr(c) in '()*+?{}|[].\\-']
        for flip in [meta] + [[i] for i in meta]:
            m = list(b0)
            for i in flip:
                m[i] |= 0x80
            jobs.append(('t%d' % len(jobs), m, []))
    # mutations of valid patterns (drop / duplicate / insert one byte)
    base = [rxl.render(a) for a in rxl.enum_asts(3)][::7] + rxl.repo_patterns()
    for ptxt in base:
        b = list(ptxt.encode('latin-1'))
        for _ in range(3 if tier == 'quick' else 12):
            m = list(b)
            k = rng.randrange(len(m) + 1)
            r = rng.random()
            if r < 0.4 and m:
                del m[min(k, len(m) - 1)]
            elif r < 0.8:
                m.insert(k, rng.choice(alpha))
            elif m:
                m[min(k, len(m) - 1)] = rng.choice(alpha)
            jobs.append(('t%d' % len(jobs), m, []))
    recs, crashed, work = rxl.run_rx(jobs, 'C17')
    for rc, j in crashed:
        out.violations.append({'summary': {'pattern': pat_text(j[1]) if j else None, 'class': 'the front end crashed (signal %s) while scanning the pattern' % rc}, 'kind': 'rx', 'pattern': j[1] if j else []})
    probs, classes, st, tr = syntax_check(recs, 'C17syn', tlc_procs=4 if tier == 'quick' else 8)
    for d in probs:
        if d['why'][0] in ('accepted-malformed', 'read-past-end'):
            out.violations.append({'summary': {'pattern': pat_text(d['pat']), 'bytes': d['pat'], 'class': d['why'][0], 'library_accepts': d['valid']}, 'kind': 'rx', 'pattern': d['pat']})
        else:
            out.notes.append('syntax-layer problem judged by C03: %s %s' % (pat_text(d['pat']), d['why']))
    wfprobs, wfitems, wfclasses, wfr = grammar_wf_check(tier, vlib.scratch('C17wf'))
    for d in wfprobs:
        it = [x for x in wfitems if x['id'] == d['id']][0]
        out.violations.append({'summary': {'class': 'grammar well-formedness: ' + d['why'][0], 'variant': d['id'], 'declared_terms': it['terms'], 'declared_nterms': it['nterms'],
                                           'rules': it['rules'], 'root': it['root'], 'library': it['threw']}, 'kind': 'wf'})
    st += wfr.distinct; tr += wfr.generated
    out.violations = out.violations[:12]
    out.coverage = {'states': int(st), 'transitions': int(max(tr, 1)), 'traces_validated_against_impl': len([r for r in recs if r]),
                    'grammar_variants(undeclared symbols / controls)': {k: ('well-formed' if v else 'ill-formed') for k, v in wfclasses.items()},
                    'texts': len(jobs), 'exhaustive_up_to_length': nmax, 'alphabet': [chr(c) if 32 < c < 127 else '\\x%02x' % c for c in alpha],
                    'classes(documented/unspecified/reject x library accepts)': {'%s,%s' % k: v for k, v in classes.items()},
                    'samples': [{'text': pat_text(r['pattern']), 'library_accepts': r['valid'], 'builder_calls': [c['op'] for c in r['calls']]} for r in recs[200:203] if r],
                    'exhaustive': True}
    out.assumptions = ['TLC + JSON reader', 'documented syntax = spec/RegexSyntax.tla (three-valued: must accept / must reject / unspecified)',
                       'reads observed through harness checked_buffer (index len = terminating NUL of a pattern literal is allowed)',
                       'validity is what analyze_dfa_size computes (every regex_term / regex::expr / parser turns it into a throw)']
    return out


# ======================================================================================= C04
def lx_items_check(recs, workname, tlc_procs=4, tlc_workers=2):
    import lx as lxl
    items = [lxl.to_item(r) for r in recs if r and not r['threw'] and r['dfa'] is not None]
    work = vlib.scratch(workname)
    tasks = []
    for ci, part in enumerate(pipeline.chunks(items, tlc_procs)):
        ip = os.path.join(work, 'lx%d.items.ndjson' % ci)
        vlib.write_ndjson(ip, part)
        cfg = pipeline.write_cfg(work, 'lx%d' % ci, 'Spec', ['RefReported', 'ModelReported', 'StaticReported'], view='vw')
        tasks.append((part, (lambda ip=ip, cfg=cfg, ci=ci: vlib.run_tlc('LexCheck', cfg, {'VERIF_LX': ip}, '%s_lx%d' % (workname, ci), workers=tlc_workers, timeout=1500))))
    outs = vlib.run_parallel([t[1] for t in tasks])
    ref, model, static = collections.defaultdict(list), collections.defaultdict(list), {}
    st = tr = 0
    runs = []
    for (part, _), r in zip(tasks, outs):
        if r.exit != 0 or r.errors:
            raise Infra('LexCheck failed: %s\n%s' % (r.errors[:3], r.out[-3000:]))
        st += r.distinct; tr += r.generated
        runs.append({'kind': 'lexer-product', 'term_sets': len(part), 'distinct': r.distinct, 'generated': r.generated, 'wall_s': round(r.wall, 1)})
        for d in r.lines.get('LXREF', []):
            ref[d['id']].append(d)
        for d in r.lines.get('LXMODEL', []):
            model[d['id']].append(d)
        for d in r.lines.get('LXSTATIC', []):
            static[d['id']] = d
    return {i['id']: i for i in items}, ref, model, static, st, tr, runs


def check_C04(tier, seed):
    import lx as lxl, rx as rxl
    out = Outcome()
    rng = random.Random(seed)
    sets = list(lxl.FAMILIES)
    sets += lxl.enum_sets(2)
    e3 = lxl.enum_sets(3)
    sets += e3[::29] if tier == 'quick' else e3
    for i in range(40 if tier == 'quick' else 800):
        n = rng.choice([2, 3, 4, 5])
        ts = []
        for _ in range(n):
            r = rng.random()
            if r < 0.3:
                ts.append(lxl.C(rng.choice('ab+x1')))
            elif r < 0.55:
                ts.append(lxl.S(''.join(rng.choice('ab+1') for _ in range(rng.choice([2, 2, 3])))))
            else:
                pt = rxl.random_pattern(rng, depth=rng.choice([1, 2, 3]))
                if len(pt) <= 22:
                    ts.append(lxl.R(pt))
        keyset = set()
        ts2 = []
        for t in ts:
            k = (t[0], tuple(t[1]) if isinstance(t[1], list) else t[1])
            if k not in keyset:
                keyset.add(k); ts2.append(t)
        if ts2:
            sets.append(ts2)
    jobs = [('l%d' % i, ts, []) for i, ts in enumerate(sets)]
    recs, crashed, work = lxl.run_lx(jobs, 'C04')
    for rc, j in crashed:
        out.notes.append('lx driver died (exit %s) near %s' % (rc, lxl.set_text(j[0][1]) if j else '?'))
    byid = {j[0]: j for j in jobs}
    items, ref, model, static, st, tr, runs = lx_items_check(recs, 'C04tlc', tlc_procs=4 if tier == 'quick' else 8)
    # ---- what each regex term's PATTERN denotes: the term-set model above follows the builder calls the real front end made
    # for a pattern; here those calls are compared with the documented reading of the pattern (RegexSyntax!Doc) - a term
    # whose pattern is read differently delivers other lexemes than the grammar's author wrote
    upats = []
    for ts in sets:
        for t in ts:
            if t[0] == 'R' and list(t[1]) not in upats:
                upats.append(list(t[1]))
    pjobs = [('tp%d' % i, pt, []) for i, pt in enumerate(upats)]
    precs, _, _ = rxl.run_rx(pjobs, 'C04pat')
    sprobs, _, st_s, tr_s = syntax_check(precs, 'C04syn', tlc_procs=4)
    st += st_s; tr += tr_s
    for d in sprobs:
        if d['why'][0] in ('meaning', 'rejected-documented'):
            out.violations.append({'summary': {'term_pattern': pat_text(d['pat']), 'class': 'a regex term\'s pattern is not read as documented (%s): the term matches other lexemes than its pattern denotes' % d['why'][0],
                                               'library_accepts': d['valid']}, 'kind': 'rx', 'pattern': d['pat']})
    # ---- execute witnesses on the real dfa_match
    wjobs = []
    for lid in set(ref) | set(model):
        ws = sorted(ref.get(lid, []) + model.get(lid, []), key=lambda d: len(d['w']))[:2]
        wjobs.append((lid, byid[lid][1], [rxl.witness_bytes(items[lid], d['w']) for d in ws]))
    wrecs, _, _ = lxl.run_lx(wjobs, 'C04w') if wjobs else ([], [], None)
    confirmed = {}
    for (lid, ts, strs), r in zip(wjobs, wrecs):
        if r is None:
            continue
        ws = sorted(ref.get(lid, []) + model.get(lid, []), key=lambda d: len(d['w']))[:2]
        for d, m in zip(ws, r['matches']):
            full = (m['idx'] if m['len'] == len(m['s']) else -1)
            if full == d['real']:
                confirmed.setdefault(lid, []).append({'input': bytes(m['s']).decode('latin-1'), 'real_longest_match': [m['idx'], m['len']],
                                                      'term_matching_whole_input_per_reference': d.get('ref', d.get('model')), 'automaton_stops_early': d.get('cut', False)})
    k1 = known_match('C04', 'lx-design')
    k1_cases = []
    for lid in sorted(set(ref) | set(model) | set(static)):
        txt = lxl.set_text(byid[lid][1])
        if lid in model or lid in static:
            out.violations.append({'summary': {'terms': txt, 'class': 'real lexer automaton deviates from the modelled construction', 'model_mismatch': model.get(lid, [None])[0],
                                               'static': static.get(lid), 'executed': confirmed.get(lid, [])[:2]}, 'kind': 'lx', 'terms': byid[lid][1]})
        else:
            if not confirmed.get(lid):
                raise Infra('witness for %s not reproduced by the real dfa_match' % txt)
            if k1:
                k1_cases.append((txt, confirmed[lid][0]))
            else:
                out.violations.append({'summary': {'terms': txt, 'class': 'tokenisation differs from longest-match / first-listed', 'executed': confirmed[lid][:2]}, 'kind': 'lx', 'terms': byid[lid][1]})
    # ---- through the real driver: token-list parsers over term sets the automaton layer found correct
    good = [j for j in jobs if j[0] in items and j[0] not in ref and j[0] not in model and j[0] not in static]
    fam = [j for j in good if j[1] in lxl.FAMILIES]
    pick = fam[:6 if tier == 'quick' else 30] + rng.sample(good, min(len(good), 6 if tier == 'quick' else 40))
    # repetition counts of several digits: the pattern's meaning (RegexSyntax!Doc) against the lexemes really delivered
    rep_inputs = {'[0-9]{12}': [[0x31] * n for n in (11, 12, 13, 21, 24)] + [[0x31] * 12 + [0x2d] + [0x32] * 12],
                  'a{10}': [[0x61] * n for n in (1, 9, 10, 11, 20)] + [[0x61] * 9 + [0x62]],
                  'x{101}': [[0x78] * n for n in (11, 100, 101, 102, 202)],
                  '[\\x80-\\xFF]+': [[0xc3, 0xa9], [0xff], [0x76], [0x80, 0xfe, 0x61, 0x4f]], '\\x4F': [[0x4f], [0x56], [0x4f, 0x4f]]}
    pick += [j for j in good if j[1] in lxl.FAMILIES[-8:] and j not in pick]
    entries = []
    seen_pick = set()
    rec_by = {j[0]: r for j, r in zip(jobs, recs)}
    for (lid, ts, _) in pick:
        if lid in seen_pick:
            continue
        seen_pick.add(lid)
        if not pipeline.unique_term_names(ts):
            continue
        rec0 = rec_by.get(lid)
        if rec0 and rec0.get('dfa') and (rec0['dfa'][0].get('end') or rec0['dfa'][0].get('rec')):
            # a term of this set matches the EMPTY string (e.g. r(((ac)*)*)): outside the domain of parsers ("terms cannot
            # match the empty string" - such a parser shifts zero-length terms for ever); the automaton layer above covers it
            continue
        e = pipeline.lex_entry('ls' + lid, ts)
        special = set(b'[]()*+?|{}\\^-.')
        alpha = sorted({b for t in ts for b in ([t[1]] if t[0] == 'C' else t[1]) if 32 < b < 127 and (t[0] != 'R' or b not in special)} | {ord('a'), ord('1'), ord('+'), ord('?')})[:6]
        wsb = [32, 10, 9, 13]
        L = 4 if tier == 'quick' else 5
        # (pairs of whitespace characters: what is skipped is decided character by character - a CR in front of a LF is a
        #  blank like any other when newlines are not skipped)
        ins = [[alpha[0], 13, 10, alpha[0]], [13, 10], [alpha[0], 32, 13, 10, alpha[0]], [alpha[0], 13, 13, 10], [alpha[0], 9, 10, 13, alpha[0]]]
        for sx in gram.all_strings(alpha + wsb, L):
            ins.append(sx)
            if len(ins) >= (500 if tier == 'quick' else 4000):
                break
        for (ws, nl) in ((1, 1), (1, 0), (0, 1)):
            pipeline.add_jobs(e, ins if (ws, nl) == (1, 1) else ins[::4], verbose=True, ws=ws, nl=nl, tag='o%d%d_' % (ws, nl))
        for _ in range(10 if tier == 'quick' else 60):
            n = rng.randint(5, 40)
            pipeline.add_jobs(e, [[rng.choice(alpha + alpha + wsb + [11, 12, 13, 0]) for _ in range(n)]], verbose=bool(rng.getrandbits(1)), ws=1, nl=rng.choice([0, 1]), tag='r')
        if len(entries) < (2 if tier == 'quick' else 8):
            byte_sweep(e)          # every byte value under the three whitespace settings (which bytes are skipped, which are not)
        for t in ts:
            if t[0] == 'R' and bytes(t[1]).decode('latin-1') in rep_inputs:
                pipeline.add_jobs(e, rep_inputs[bytes(t[1]).decode('latin-1')], verbose=False, tag='rep')
        entries.append(e)
    # no term matches while input is being DISCARDED after a syntax error: still reported, never skipped
    cat_ = {g.name: g for g in catalogue()}
    for n in ('err_suite', 'err_stmt'):
        ee = pipeline.gen_entry(cat_[n], gid=n + '@c04')
        pipeline.add_jobs(ee, [x for x in ws_inputs(ee.g, 4, [ord('?'), 32], 2500) if ord('?') in x][::3][:300 if tier == 'quick' else 2000], verbose=True)
        entries.append(ee)
    res = None
    if entries:
        res, work2 = prun.run(entries, 'C04drv', design_L=None, do_product=False, tlc_procs=4 if tier == 'quick' else 8, tlc_workers=4 if tier == 'quick' else 2, keep_lex=True)
        judge_traces(out, entries, res, {'lexer-lines', 'table', 'step', 'functor', 'report', 'position', 'verdict', 'tree', 'extra', 'threw'}, None)
    out.violations = out.violations[:12]
    if k1_cases:
        ex = '; '.join('%s lexes %r as %s' % (t, c['input'], c['real_longest_match']) for t, c in k1_cases[:3])
        out.known.append('K1 (term-set union built by in-place merging): %d of %d term sets tokenise wrongly exactly as the modelled design does, e.g. %s' % (len(k1_cases), len(items), ex))
    out.coverage = {'states': int(st + (res.states if res else 0)), 'transitions': int(max(tr + (res.transitions if res else 0), 1)),
                    'traces_validated_against_impl': int(res.traces if res else 0),
                    'term_sets': len(jobs), 'term_sets_equal_to_reference': len(items) - len(set(ref) | set(model)), 'term_sets_failing_as_modelled_design_K1': len(k1_cases),
                    'witnesses_executed_on_real_dfa_match': sum(len(v) for v in confirmed.values()),
                    'driver_level_term_sets': len(entries), 'driver_level_event_kinds': dict(res.event_kinds) if res else {},
                    'tlc_runs': runs + (res.tlc_runs if res else []),
                    'bounds': {'term_sets_exhaustive_up_to': '2 terms (3 terms: sampled in quick, all in thorough) over %d descriptors' % len(lxl.BASIC), 'driver_inputs_L': 4 if tier == 'quick' else 5},
                    'samples': [{'terms': lxl.set_text(byid[l][1]), 'states': len(items[l]['dfa'])} for l in list(items)[:3]] + (sample_traces(entries, 2) if entries else []),
                    'exhaustive': False}
    out.assumptions = ['TLC + JSON reader', 'reference = per-term derivative languages, longest match, least index (spec/LexCheck.tla, Tables!LexRefAt); pattern meaning = RegexSyntax!Doc',
                       'segment abstraction refined by the real rows', 'K1 attribution as for C03']
    return out


# ======================================================================================= C06
def check_C06(tier, seed):
    import rx as rxl
    out = Outcome()
    rng = random.Random(seed)
    cat = {g.name: g for g in catalogue()}
    names = ['left_rec', 'right_rec_empty', 'paren', 'paren_list', 'expr_strat', 'nullable_prefix', 'dyck', 'two_lists', 'unit_chain', 'closure_memo']
    if tier != 'quick':
        names += ['mutual_rec', 'lr1_not_lalr', 'opt_tail', 'deep_unit_nullable', 'll_pal', 'reduce_la', 'first_cycle', 'nullable_cycle2']
    entries = []
    for n in names:
        entries += entries_for(cat[n], hosts=(0,), gen=False) or entries_for(cat[n], hosts=(), gen=True)
    for n in ('err_suite', 'err_stmt', 'err_block'):
        entries += entries_for(cat[n], hosts=(1,), gen=False)
    L = 4 if tier == 'quick' else 5
    odd = [0, 0x80, 0xff, ord('?'), 32, 10]
    long_jobs = collections.defaultdict(list)
    for e in entries:
        ins = ws_inputs(e.g, L if len(e.g.ts) <= 2 else L - 1, odd, 500 if tier == 'quick' else 3000)
        pipeline.add_jobs(e, ins, buf=3, verbose=True, tag='k')          # checked buffer: every dereference observed
        pipeline.add_jobs(e, ins[::3], buf=0, verbose=False, tag='v')
        pipeline.add_jobs(e, ins[::3], buf=1, verbose=False, tag='s')
        for s in gengram.sentences(e.g, rng, 6 if tier == 'quick' else 25, max_len=60 if tier == 'quick' else 250):
            pipeline.add_jobs(e, [s], buf=3, verbose=False, tag='ls')
            if s:
                m = list(s); m[rng.randrange(len(m))] = rng.choice(odd + [ord(c) for c in e.g.ts])
                pipeline.add_jobs(e, [m], buf=3, verbose=False, tag='lm')
        for _ in range(6 if tier == 'quick' else 40):                    # raw byte fuzz
            n = rng.randint(1, 60)
            pipeline.add_jobs(e, [[rng.choice(odd + [ord(c) for c in e.g.ts] * 3) for _ in range(n)]], buf=3, verbose=bool(rng.getrandbits(1)), tag='f')
    for e in entries[:3 if tier == 'quick' else 10]:
        byte_sweep(e, buf=3, verbose=False)
    # one lexeme longer than 2^16 bytes through the generated lexer (length bookkeeping in narrow integer types)
    import lx as lxl
    el = pipeline.lex_entry('longlexeme', [lxl.R('[a-z]+'), lxl.C(' ')])
    pipeline.add_jobs(el, [[97] * 65600, [97] * 65534, [97] * 65535, [97] * 65536] + ([[98] * 70000 + [32] + [97] * 3, [97] * 131100] if tier != 'quick' else []), buf=0, verbose=False, ws=0, nl=0, tag='big')
    pipeline.add_jobs(el, [[97, 98, 32, 99], [32, 32], [97] * 300], buf=3, verbose=True, ws=0, nl=0, tag='s')
    entries.append(el)
    # texts that END inside a multi-character lexeme (an arrow half written, a string literal left open): the lexer runs to
    # the end of the buffer looking for the rest - nothing at or behind end() may be read, also not for the message
    ep = pipeline.lex_entry('partial_at_end', [lxl.S('=>'), lxl.R('"[^"]*"'), lxl.R('[a-z]+'), lxl.S('<=>')])
    pins = [sx for sx in gram.all_strings([ord(c) for c in '=>"a< '], 4)]
    for b_ in (3, 0, 1):
        pipeline.add_jobs(ep, pins if b_ == 3 else pins[::5], buf=b_, verbose=(b_ == 3), tag='p%d_' % b_)
    entries.append(ep)
    res, work = prun.run(entries, 'C06', design_L=None, do_product=False, tlc_procs=4 if tier == 'quick' else 8, tlc_workers=4 if tier == 'quick' else 2)
    domain = {e.gid for e in entries}
    judge_traces(out, entries, res, {'oob', 'extra:oobread', 'extra:oobiter', 'extra:oobview', 'extra:oob', 'threw', 'partial-line'}, domain)
    judge_traces(out, [el], res, {'functor', 'step', 'verdict', 'report', 'extra', 'tree'}, {el.gid})     # the long lexeme must come out as ONE term
    # every lexeme handed to a term functor lies INSIDE the caller's buffer (its offset is known): a view into anything else -
    # a copy the library made, the storage of a buffer this one was copied or moved from - is a read outside the buffer
    nout = 0
    for e in entries:
        for t in e.traces:
            bad = [ev for ev in t['events'] if ev[0] == 'tval' and ev[2] < 0]
            if bad and nout < 3:
                nout += 1
                v = trace_violation(e, {'id': t['id'], 'g': e.gid, 'why': ['lexeme-outside-buffer', 0], 'trace': t}, 'a lexeme handed to a functor does not lie in the caller\'s buffer (read outside the buffer)')
                v['summary']['real_event'] = bad[0]
                v['summary']['buffer_kind'] = t['buf']
                out.violations.append(v)
    for gid, rc in res.crashed:
        e = [x for x in entries if x.gid == gid][0]
        done = {t['id'] for t in e.traces}
        first = [j for j in e.jobs if j[0] not in done][:1]
        out.violations.append({'summary': {'grammar': gid, 'class': 'the process died (exit %s) while parsing' % rc + (' - no result within the time budget' if rc == 124 else ''),
                                           'input': bytes(first[0][6]).decode('latin-1') if first else None, 'buffer_kind': first[0][1] if first else None},
                               'kind': 'parser', 'gname': e.g.name, 'mode': e.mode, 'gid': gid,
                               'grammar': {'nts': e.g.nts, 'ts': e.g.ts, 'root': e.g.root, 'rules': e.g.rules, 'tprec': e.g.tprec, 'tassoc': e.g.tassoc},
                               'bytes': first[0][6] if first else [], 'ws': 1, 'nl': 1, 'verbose': 0, 'stream': 0, 'buf': first[0][1] if first else 0})
    # ---- very long and deeply nested inputs: observers only (no TLC replay of 10^5 events), through the plain and the sanitizer build
    hostbins = pipeline.host_bins()
    asan = vlib.build_binary('host0_asan', 'host.cpp', ('-DHOST_VARIANT=0', '-fsanitize=address,undefined', '-fno-sanitize-recover=undefined', '-D_GLIBCXX_ASSERTIONS', '-g'), cxx='clang++')
    big = []
    for n in ('paren', 'left_rec', 'right_rec_empty', 'expr_strat', 'dyck'):
        if n not in cat:
            continue
        try:
            e = pipeline.host_entry(cat[n], 0, gid=n + '@big')
        except ValueError:
            continue
        N = 3000 if tier == 'quick' else 60000
        g = cat[n]
        if n == 'paren':
            deep = [ord('(')] * N + [ord('x')] + [ord(')')] * N
            ins = [deep, deep[:-1], [ord('(')] * N, [32] * N, []]
        elif n == 'dyck':
            ins = [[ord('(')] * N + [ord(')')] * N, [ord('('), ord(')')] * N, [ord(')')] * 5]
        elif n == 'expr_strat':
            ins = [sum([[ord('n'), ord('+')] for _ in range(N)], []) + [ord('n')], [ord('(')] * N + [ord('n')] + [ord(')')] * N, sum([[ord('n'), ord('*')] for _ in range(N)], [])]
        else:
            t0 = ord(g.ts[0])
            ins = [[t0] * N, [t0, 32, 10] * N, [t0] * N + [0], [0x80] * 10]
        # growth boundaries of the std::vector stacks (initial reserve 1024, then doubling): a reduction or a shift that
        # happens exactly when size == capacity reallocates while values are being read
        edge = []
        for cap_ in (1024, 2048) if tier == 'quick' else (1024, 2048, 4096, 8192):
            for d in range(cap_ - 5, cap_ + 4):
                if n == 'paren':
                    edge.append([ord('(')] * d + [ord('x')] + [ord(')')] * d)
                elif n == 'dyck':
                    edge.append([ord('(')] * d + [ord(')')] * d)
                elif n == 'expr_strat':
                    edge.append([ord('(')] * d + [ord('n')] + [ord(')')] * d)
                else:
                    edge.append([ord(g.ts[0])] * d)
        for b in (0, 1, 3):
            pipeline.add_jobs(e, ins, buf=b, verbose=False, tag='b%d_' % b)
        for b in (0, 1):
            pipeline.add_jobs(e, edge, buf=b, verbose=False, tag='e%d_' % b)
        if n in ('right_rec_empty', 'paren'):
            # stacks deeper than 2^16 entries (indexes kept in 16-bit integers elsewhere in the library must not leak here)
            d = 70000
            pipeline.add_jobs(e, [[ord('(')] * d + [ord('x')] + [ord(')')] * d] if n == 'paren' else [[ord(g.ts[0])] * d], buf=0, verbose=False, tag='d16_')
        big.append(e)
    nbig = 0
    for (label, binp, env) in (('plain', hostbins['host0'], {'VERIF_LIGHT': '1'}), ('asan+ubsan', asan, {'VERIF_LIGHT': '1', 'ASAN_OPTIONS': 'detect_leaks=0:abort_on_error=0', 'VERIF_JOB_TIMEOUT': '120'})):
        use = big + ([e for e in entries if e.mode == 'host0'] if label != 'plain' else [])
        recs, rc, err = pipeline.run_host_binary(binp, use, 'C06' + label.replace('+', ''), env)
        nbig += len(recs)
        byid = {r['id']: r for r in recs}
        if rc != 0:
            first = None
            for e in use:
                for j in e.jobs:
                    if j[0] not in byid:
                        first = (e, j); break
                if first:
                    break
            e, j = first if first else (use[0], use[0].jobs[0])
            out.violations.append({'summary': {'grammar': e.gid, 'class': '%s build: process ended with exit %s%s' % (label, rc, ' (no result within the time budget)' if rc == 124 else ''),
                                               'input_prefix': bytes(j[6][:60]).decode('latin-1'), 'input_length': len(j[6]), 'buffer_kind': j[1], 'stderr': err[-600:]},
                                   'kind': 'parser', 'gname': e.g.name, 'mode': e.mode, 'gid': e.gid,
                                   'grammar': {'nts': e.g.nts, 'ts': e.g.ts, 'root': e.g.root, 'rules': e.g.rules, 'tprec': e.g.tprec, 'tassoc': e.g.tassoc},
                                   'bytes': j[6] if len(j[6]) < 5000 else j[6][:5000], 'ws': 1, 'nl': 1, 'verbose': 0, 'stream': 0, 'buf': j[1]})
        for r in recs:
            bad = [ev for ev in r['events'] if ev[0].startswith('oob')]
            if r.get('stackspan', 0) > 65536 and label == 'plain':
                # parse() is a loop (Driver.tla: one step per action, nothing nested): its call-outs all come from about the same
                # depth of the machine stack; a distance that grows with the input ends in a stack overflow on a longer one
                bad.append(['machine stack: %d bytes between the shallowest and the deepest call-out of one parse' % r['stackspan']])
            if bad or r['threw'] or r['overflow']:
                e = [x for x in use if x.gid == r['g']][0]
                out.violations.append({'summary': {'grammar': r['g'], 'class': '%s build: out-of-range access / exception on a long input' % label, 'events': bad[:3], 'threw': r['threw'],
                                                   'input_length': len(r['bytes']), 'buffer_kind': r['buf']},
                                       'kind': 'parser', 'gname': e.g.name, 'mode': e.mode, 'gid': e.gid,
                                       'grammar': {'nts': e.g.nts, 'ts': e.g.ts, 'root': e.g.root, 'rules': e.g.rules, 'tprec': e.g.tprec, 'tassoc': e.g.tassoc},
                                       'bytes': r['bytes'][:5000], 'ws': 1, 'nl': 1, 'verbose': 0, 'stream': 0, 'buf': r['buf']})
    # ---- cstring_buffer: the library's own fixed stacks (bounds hook), nullable symbols and error recovery
    ncstr, k2c, st_cs, tr_cs = cstring_stack_section(out, tier, 'C06', cat)
    # ---- the fixed-capacity containers themselves: every transition of spec/Containers.tla replayed into the real objects
    import containers
    cprobs, cstats, crun = containers.run('C06cont')
    for pb in cprobs[:4]:
        out.violations.append({'summary': pb, 'kind': 'containers'})
    st_cs += crun.distinct; tr_cs += crun.generated
    # ---- termination of the specification itself (liveness under weak fairness, no state constraint)
    small = [e for e in entries if e.mode == 'host0'][:4] + [e for e in entries if e.mode == 'host1'][:3]      # incl. error-recovery grammars (recovery / consume loops)
    env, _ = pipeline.tlc_inputs(small, work, 'live', with_traces=False)
    env.pop('VERIF_DUMPS', None)
    cfg = pipeline.write_cfg(work, 'live', 'FairSpec', ['Safe'], {'L': 3, 'WSBYTES': '{32, 63}'}, properties=['Terminates'])
    rl = vlib.run_tlc('MCDriver', cfg, env, 'C06_live', workers=4, timeout=900)
    if rl.exit != 0 or rl.errors:
        raise Infra('the specification does not terminate / violates Safe (spec bug): %s\n%s' % (rl.errors[:3], rl.out[-2000:]))
    # ---- the standalone matcher: any string, matching or not, through the checked buffer
    pats = ['a*', '(a|b)*c', '[a-z]+[0-9]*', 'a{3}', '.', '[^a]', '\\x80+', 'ab?c', 'x', '(ab)+', '(ab){2}', '(a|bc){3}x', '((ab){2}c){2}']
    pjobs = []
    for i, ptxt in enumerate(pats):
        strs = [[], [97], [97] * 2000, [0], [0x80, 0xff], [98, 99], [97, 98, 97, 98], [120], [99], [97, 98, 97, 98, 97, 98], [97, 98, 99, 97, 120], [97, 98, 97, 98, 99, 97, 98, 97, 98, 99]]
        for _ in range(10 if tier == 'quick' else 100):
            strs.append([rng.choice([97, 98, 99, 120, 48, 0, 0x80, 32]) for _ in range(rng.randint(0, 12))])
        pjobs.append(('m%d' % i, list(ptxt.encode('latin-1').decode('unicode_escape').encode('latin-1')) if False else list(ptxt.encode('latin-1')), strs))
    recs, crashed, _ = rxl.run_rx(pjobs, 'C06rx')
    nmatch = 0
    for (pid, pat, strs), r in zip(pjobs, recs):
        if r is None:
            out.violations.append({'summary': {'pattern': pat_text(pat), 'class': 'matcher process died'}, 'kind': 'rx', 'pattern': pat})
            continue
        for m in r['matches']:
            nmatch += 1
            if m['oob'] or m['threw']:
                out.violations.append({'summary': {'pattern': pat_text(pat), 'string': m['s'][:40], 'class': 'regex matcher read outside the string', 'threw': m['threw']}, 'kind': 'rx', 'pattern': pat})
    try:
        mrecs, mcrash = run_rxexpr(rng, tier)
    except Infra as ex:
        if 'compile failed' not in str(ex):
            raise
        # harness/rxexpr.cpp holds ten documented patterns as regex::expr<P> objects and nothing else of the library: if it
        # no longer compiles, the library rejects (or miscomputes, in constant evaluation) patterns it must accept
        mrecs, mcrash = [], None
        out.violations.append({'summary': {'class': 'compile-time regex objects (regex::expr<P>) over documented patterns no longer compile', 'compiler_says': str(ex)[-900:]},
                               'kind': 'rxexpr', 'pattern': '', 'string': []})
    for r in mrecs:
        nmatch += 1
        if r.get('oob') or r.get('threw'):
            out.violations.append({'summary': {'pattern': r['pattern'], 'string': r['s'][:40], 'class': 'regex::expr::match read outside the string', 'events': r.get('events', [])[:3], 'threw': r.get('threw')},
                                   'kind': 'rxexpr', 'pattern': r['pattern'], 'string': r['s']})
    if mcrash:
        out.violations.append({'summary': {'class': 'regex::expr::match crashed the process', 'detail': mcrash}, 'kind': 'rxexpr', 'pattern': '', 'string': []})
    out.violations = out.violations[:12]
    out.coverage = base_coverage(res, {
        'grammars': len(entries), 'checked_buffer_parses': sum(1 for e in entries for j in e.jobs if j[1] == 3),
        'long_or_deep_inputs_run_with_observers': nbig, 'longest_input_bytes': 3000 * 2 + 1 if tier == 'quick' else 120001,
        'sanitizer_build': 'clang++ -fsanitize=address,undefined -D_GLIBCXX_ASSERTIONS', 'matcher_runs_observed': nmatch,
        'spec_liveness': {'property': '<>(status # "run") under WF(Next)', 'states': rl.distinct, 'L': 3},
        'bounds': {'L_all_inputs_over_terms_and_NUL_0x80_0xff_?_SP_LF': L},
        'samples': sample_traces(entries, 2) + [{'long_input': 'paren: ( x N, x, ) x N', 'N': 3000 if tier == 'quick' else 60000}], 'exhaustive': False})
    out.coverage['states'] += rl.distinct + st_cs
    out.coverage['transitions'] += rl.generated + tr_cs
    out.coverage['cstring_buffer_parses_with_bounds_hook'] = ncstr
    out.coverage['k2_attributed'] = len(k2c)
    out.coverage['stdex_containers_model_based'] = cstats
    out.assumptions = std_assumptions() + ['reads observed by harness checked_buffer (every operator*, iterator arithmetic and get_view)', 'library stacks/tables observed by the CTPG_VERIF cvector hook and ASan/UBSan',
                                           'a hang is detected by a per-parse watchdog (20 s plain, 120 s sanitizer build)']
    return out


def run_rxexpr(rng, tier):
    """regex::expr<P>::match (compile-time built automata) on run-time strings through checked buffers"""
    binp = vlib.build_binary('rxexpr', 'rxexpr.cpp')
    work = vlib.scratch('rxexpr')
    jp = os.path.join(work, 'jobs')
    strs = [[], [97], [98], [97, 97, 97], [97] * 500, [0], [0x80], [120, 121], [97, 98, 99], [48, 49], [97, 0, 97],
            [97, 98, 97, 98], [97, 98, 97], [97, 98, 97, 98, 97, 98], [97, 98, 99, 97, 120], [97, 97, 97, 120], [98, 99, 98, 99, 98, 99, 120]]
    for _ in range(20 if tier == 'quick' else 200):
        strs.append([rng.choice([97, 98, 99, 120, 48, 0, 0x80, 32, 10]) for _ in range(rng.randint(0, 10))])
    with open(jp, 'w') as f:
        for s in strs:
            f.write('%s\n' % (''.join('%02x' % b for b in s) or '-'))
    op = os.path.join(work, 'out')
    r = subprocess.run([binp, jp, op], capture_output=True, text=True, timeout=900)
    recs = vlib.read_ndjson_lenient(op)
    return recs, (None if r.returncode == 0 else 'exit %s: %s' % (r.returncode, r.stderr[-300:]))


# ======================================================================================= C07
def check_C07(tier, seed):
    import gen_ct, resource
    out = Outcome()
    rng = random.Random(seed)
    cat = {g.name: g for g in catalogue()}
    names = ['left_rec', 'right_rec_empty', 'paren', 'expr_strat', 'lr1_not_lalr', 'reduce_la', 'expr_amb', 'mutual_rec', 'nullable_prefix', 'nested_nullable', 'nullable_mid']
    if tier != 'quick':
        names += ['deep_unit_nullable', 'left_rec_empty', 'closure_memo', 'first_stride', 'unit_chain', 'paren_list', 'opt_tail', 'two_lists', 'expr_unary', 'dangling_else', 'first_leftrec_chain', 'nullable_cycle2', 'll_pal', 'expr_rassoc']
    # (error recovery during constant evaluation: the same verdict as at run time, and still a constant expression)
    names += ['err_stmt', 'err_deep_pop'] if tier == 'quick' else ['err_stmt', 'err_deep_pop', 'err_suite', 'err_block']
    grams = [cat[n] for n in names if n in cat]
    entries, cases_by = [], {}
    for g in grams:
        # every third rule has no functor: its left-side value is constructed from the right-side values, in their order
        e = pipeline.gen_entry(g, gid=g.name + '@ct', dflt=[i for i in range(len(g.rules)) if i % 3 == 2 and not g.has_error()])
        entries.append(e)
        alpha = [ord(t) for t in g.ts]
        ins = []
        for s in gram.all_strings(alpha + [ord('?'), 32], 3):
            ins.append((s, 1, 1))
        ins = ins[::max(1, len(ins) // (40 if tier == 'quick' else 120))]
        if any(not r for (_, r, _) in g.rules):
            # nullable symbols: every short text without slack (several empty reductions stacked on few characters)
            ins += [(s, 1, 1) for s in gram.all_strings(alpha, 2 if tier == 'quick' else 3)]
        if g.name == 'err_deep_pop':
            # several hundred states popped in ONE recovery (a loop in the library: no nesting of calls in constant evaluation)
            ins += [([40] * 600 + [59], 1, 1), ([40] * 600 + [120] + [41] * 300 + [59], 1, 1)]
        if g.name == 'left_rec':
            # a text of 1500 characters (fixed stacks of more than 16 KiB): constant evaluation must not depend on the SIZE of the fixed stacks a long
            # cstring_buffer brings with it (one accepted, one with a lexical error at the very end)
            ins += [([alpha[0]] * 1500, 1, 1), ([alpha[0]] * 1500 + [ord("?")], 1, 1)]
        nlay = 0
        for s in gengram.sentences(g, rng, 8 if tier == 'quick' else 25, max_len=14):
            ins.append((s, 1, 1))
            if s:
                m = list(s); m[rng.randrange(len(m))] = rng.choice(alpha + [ord('?')])
                ins.append((m, 1, 1))
                sp = []
                for b in s:
                    sp += [b] + ([rng.choice([32, 10, 9])] if rng.random() < 0.4 else [])
                ins.append((sp, 1, rng.choice([0, 1])))
                ins.append((sp, 0, 1))
                # empty lines between the terms (two line breaks in one run of whitespace), also with carriage returns
                dl = []
                for k_, b in enumerate(s):
                    dl += [b] + ([10, 10] if k_ % 2 == 0 else [13, 10, 13, 10, 32])
                ins.append((dl, 1, 1))
                # each of the six whitespace characters on its own, under each of the four whitespace option sets (what is
                # skipped is decided by the options, in constant evaluation and at run time alike)
                if len(s) <= 6 and nlay < (2 if tier == 'quick' else 5):
                    nlay += 1
                    for wsb in (9, 13, 11, 12, 32, 10):
                        lay = []
                        for b in s:
                            lay += [b, wsb]
                        for (ws_, nl_) in ((1, 1), (1, 0), (0, 1), (0, 0)):
                            ins.append((lay, ws_, nl_))
        seen, uniq = set(), []
        for (b, ws, nl) in ins:
            k = (tuple(b), ws, nl)
            if k not in seen:
                seen.add(k); uniq.append((list(b), ws, nl))
        cases_by[e.gid] = uniq
    # ---- token-list parsers over multi-character terms (string / regex terms: the value IS the lexeme, NUL and high bytes included)
    import lx as lxl, gen_tu
    lsets = [('ctlexA', [lxl.R('[^ab\\x20\\x0a]+'), lxl.S('ab'), lxl.C('a')], [0, 0x80, ord('a'), ord('b'), ord('x'), 32],
              [list(b'x\x00y ab a'), list(b'\x00'), list(b'ab\x00\x00a'), list(b'xy\x00'), list(b'a\x00b')]),
             ('ctlexB', [lxl.R('"[^"]*"'), lxl.R('[0-9]+'), lxl.C(',')], [ord('"'), ord('1'), ord(','), 0, ord('z')],
              [list(b'"a\x00b",12'), list(b'"\x00"'), list(b'"",""'), list(b'12,"z\x00\x00"'), list(b'"abc'), list(b'1 2,\n3')])]
    if tier != 'quick':
        lsets.append(('ctlexC', [lxl.S('if'), lxl.R('[a-z]+'), lxl.C('+'), lxl.S('++')], [ord('i'), ord('f'), ord('+'), ord('x'), 32], [list(b'if ifx x+++if'), list(b'i+f')]))
    for (nm, ts, alpha, curated) in lsets:
        e = pipeline.lex_entry(nm, ts)
        entries.append(e)
        ins = [(s, 1, 1) for s in gram.all_strings(alpha, 3)]
        ins = ins[::max(1, len(ins) // (45 if tier == 'quick' else 150))]
        ins += [(s, 1, 1) for s in curated] + [(s, 0, 1) for s in curated[:2]]
        seen, uniq = set(), []
        for (b, ws, nl) in ins:
            k = (tuple(b), ws, nl)
            if k not in seen:
                seen.add(k); uniq.append((list(b), ws, nl))
        cases_by[e.gid] = uniq
    # ---- expected behaviours generated by TLC from the specification
    given = [(e.gid, tuple(b), bool(ws), bool(nl)) for e in entries for (b, ws, nl) in cases_by[e.gid]]
    verd, rv = prun.spec_verdicts(entries, given, 'C07v', tlc_workers=8)
    work = vlib.scratch('C07')
    tus = []
    k2 = known_match('C07', 'stack-capacity')
    for e in entries:
        cases = []
        for (b, ws, nl) in cases_by[e.gid]:
            v = verd.get((e.gid, tuple(b), bool(ws), bool(nl)))
            if v is None:
                raise Infra('no specification verdict for %s %r' % (e.gid, b))
            if v['status'] not in ('acc', 'rej'):
                continue
            ok = v['status'] == 'acc'
            if hasattr(e, 'lexterms'):
                val = gen_ct.hash_lex_tree(v['nodes'], v['root'], list(b)) if ok else 0
            else:
                val = (None if e.g.has_error() else gen_ct.hash_tree(v['nodes'], v['root'], e.tla['tbytes'])) if ok else 0
            nempty = sum(1 for (_, r, _) in e.g.rules if not r)
            cases.append({'bytes': list(b), 'ws': ws, 'nl': nl, 'ok': ok, 'val': val, 'maxstack': v['maxstack'], 'cap': len(b) + 1 + nempty + 1})
        src = os.path.join(work, e.g.name + '_ct.cpp')
        with open(src, 'w') as f:
            if hasattr(e, 'lexterms'):
                f.write(gen_ct.lex_tu(e.lexterms, gen_tu.lex_rules(len(e.lexterms), getattr(e, 'lexshape', 'list')), cases))
            else:
                f.write(gen_ct.tu(e.g, cases, getattr(e, 'dflt', ())))
        tus.append((e, cases, src))
    inc = os.path.join(vlib.REPO, 'include')

    def compile_job(cmd):
        return lambda: subprocess.run(cmd, capture_output=True, text=True, timeout=1500)
    jobs = []
    for (e, cases, src) in tus:
        # (err_deep_pop is compiled with the compiler's DEFAULT depth of nested constexpr calls: the driver is a loop, a recovery
        #  that pops 600 states nests no calls - a limit raised to 4096 would hide a depth that grows with the input)
        gdepth = [] if e.g.name == 'err_deep_pop' else ['-fconstexpr-depth=4096']
        jobs.append(('g++', e, compile_job(['g++', '-std=c++17', '-fsyntax-only', '-fconstexpr-ops-limit=2000000000', '-fconstexpr-loop-limit=100000000'] + gdepth + ['-I' + inc, src])))
        jobs.append(('clang++', e, compile_job(['clang++', '-std=c++17', '-fsyntax-only', '-fconstexpr-steps=2000000000', '-fconstexpr-depth=4096', '-fbracket-depth=4096', '-I' + inc, src])))
        jobs.append(('build', e, compile_job(['g++', '-std=c++17', '-O1', '-DVERIF_RUNTIME_ONLY', '-I' + inc, src, '-o', src[:-4]])))
    rs = vlib.run_parallel([j[2] for j in jobs])
    ncases = sum(len(c) for _, c, _ in tus)
    nct = 0
    byent = {e.gid: (e, cases, src) for (e, cases, src) in tus}
    for (kind, e, _), r in zip(jobs, rs):
        cases = byent[e.gid][1]
        if kind in ('g++', 'clang++'):
            if r.returncode == 0:
                nct += len(cases)
                continue
            err = r.stderr
            if e.g.name == 'err_deep_pop' and kind == 'g++' and 'constexpr-depth' in err:
                out.violations.append({'summary': {'grammar': e.gid, 'compiler': kind, 'class': 'constant evaluation nests calls as deep as the stack one recovery pops (the default depth of 512 nested constexpr calls is exceeded by an input that pops 600 states)',
                                                   'compiler_says': err[:500]}, 'kind': 'ct', 'gname': e.g.name, 'source': open([t for t in tus if t[0] is e][0][2]).read()})
                continue
            if 'limit' in err and ('constexpr' in err) and ('exceed' in err or 'maximum' in err):
                raise Infra('constant-evaluation limit of %s hit for %s (raise the limit; not a verdict)' % (kind, e.gid))
            import re as _re
            bad = sorted(set(int(x) for x in _re.findall(r'CT(\d+):', err)) | set(int(x) for x in _re.findall(r"'[rv](\d+)'", err)) | set(int(x) for x in _re.findall(r'\b[rv](\d+)\b(?= must be initialized| is not a constant)', err)))
            if not bad:
                bad = [-1]
            for i in bad[:3]:
                c = cases[i] if 0 <= i < len(cases) else None
                over = c and c['maxstack'] > c['cap']
                summ = {'grammar': e.gid, 'compiler': kind, 'input': bytes(c['bytes']).decode('latin-1') if c else None, 'expected': ({'ok': c['ok'], 'value': c['val']} if c else None),
                        'class': 'constant evaluation fails or disagrees with the specification', 'compiler_says': err[:600]}
                if over and k2:
                    out.known.append('K2 fixed stacks of cstring_buffer parses too small: %s input %r needs depth %d > capacity %d (constant evaluation rejected by %s)' % (e.gid, summ['input'], c['maxstack'], c['cap'], kind))
                else:
                    out.violations.append({'summary': summ, 'kind': 'ct', 'gname': e.g.name, 'source': byent[e.gid][2]})
    # ---- run time: three buffers x {constexpr object, run-time constructed object}
    nrt = 0
    for (e, cases, src) in tus:
        binp = src[:-4]
        if not os.path.exists(binp):
            out.violations.append({'summary': {'grammar': e.gid, 'class': 'the run-time translation unit does not compile'}, 'kind': 'ct', 'gname': e.g.name, 'source': src})
            continue
        r = subprocess.run(['bash', '-c', 'ulimit -s unlimited; exec ' + binp], capture_output=True, text=True, timeout=600)
        got = collections.defaultdict(dict)
        for ln in r.stdout.splitlines():
            p = ln.split()
            if len(p) == 4:
                got[int(p[0])][p[1]] = (int(p[2]), int(p[3]))
        for i, c in enumerate(cases):
            for how in ('cstring,ctobj', 'cstring,rtobj', 'string,ctobj', 'string,rtobj', 'string-moved,ctobj', 'string-copied,rtobj', 'view,ctobj', 'view,rtobj'):
                nrt += 1
                g2 = got.get(i, {}).get(how)
                exp = (1, c['val']) if c['ok'] else (0, 0)
                if c['val'] is None and g2 is not None:
                    g2, exp = (g2[0], None), (exp[0], None)       # (recovery grammars: acceptance only)
                if g2 != exp:
                    over = c['maxstack'] > c['cap'] and how.startswith('cstring')
                    if over and k2:
                        out.known.append('K2 fixed stacks of cstring_buffer parses too small: %s input %r needs depth %d > capacity %d (%s)' % (e.gid, bytes(c['bytes']).decode('latin-1'), c['maxstack'], c['cap'], how))
                        continue
                    out.violations.append({'summary': {'grammar': e.gid, 'input': bytes(c['bytes']).decode('latin-1'), 'ws': c['ws'], 'nl': c['nl'], 'how': how, 'got(has_value,value)': g2,
                                                       'expected': exp, 'class': 'run-time result differs from the specification (hence from constant evaluation / other buffers)',
                                                       'exit': r.returncode}, 'kind': 'ct', 'gname': e.g.name, 'source': src})
    # ---- the documented buffer interface itself: every walk of spec/Buffers.tla on the three buffers, cstring_buffer also in constant evaluation
    import buffers
    bprobs, bstats, brun = buffers.run(tier, 'C07buf')
    for pb in bprobs:
        out.violations.append({'summary': pb, 'kind': 'ct', 'gname': 'buffers', 'source': 'spec/Buffers.tla'})
    # ---- the option objects (spec/Options.tla): every chain of setters in constant evaluation and at run time, and a parse with the result
    import options
    oprobs, ostats, orun = options.run(tier, 'C07opt')
    for pb in oprobs:
        out.violations.append({'summary': pb, 'kind': 'ct', 'gname': 'options', 'source': 'spec/Options.tla'})
    out.known = sorted(set(out.known))[:6]
    out.violations = out.violations[:12]
    out.coverage = {'states': int(rv.distinct + brun.distinct + orun.distinct), 'transitions': int(max(rv.generated + brun.generated + orun.generated, 1)), 'traces_validated_against_impl': 0,
                    'buffer_interface_walks': bstats, 'option_object_chains': ostats,
                    'grammars': len(tus), 'inputs_with_TLC_generated_expectation': ncases, 'static_asserts_passed(per compiler sum)': nct, 'run_time_comparisons': nrt,
                    'compilers': ['g++ -fsyntax-only', 'clang++ -fsyntax-only'], 'buffers': ['cstring_buffer', 'string_buffer', 'string_view_buffer'],
                    'parser_objects': ['constexpr', 'constructed at run time'],
                    'samples': [{'grammar': e.gid, 'input': bytes(c['bytes']).decode('latin-1'), 'expected_ok': c['ok'], 'expected_value': c['val']} for (e, cases, _) in tus[:2] for c in cases[:2]],
                    'exhaustive': False}
    out.assumptions = ['expected outcomes are generated by TLC from Driver.tla + LR1.tla (trees); the value is the generated functors\' hash of that tree',
                       'constant-evaluation limits are raised explicitly; hitting one is an infrastructure error, not a verdict', 'the TU includes only ctpg.hpp (hooks off)']
    return out


def cstring_stack_section(out, tier, pid, cat):
    """cstring_buffer parses (fixed cursor/value stacks) of grammars with nullable symbols and error recovery through the
    bounds-hooked host builds; the specification (TLC) predicts verdict and stack depth of every input.  Shared by C12
    (capacity) and C06 (no write outside the library's own stacks)."""
    k2 = known_match(pid, 'stack-capacity')
    snames = ['nullable_mid', 'nested_nullable', 'nullable_prefix', 'deep_unit_nullable', 'left_rec_empty', 'opt_tail', 'dyck', 'right_rec_empty', 'paren', 'expr_strat']
    groups = {0: [], 1: []}
    for n in snames:
        if n in cat:
            try:
                groups[0].append(pipeline.host_entry(cat[n], 0, gid=n + '@cs'))
            except ValueError:
                pass
    extra = gram.Grammar('k2_chain', ['R', 'A'], ['x'], 'R', [('R', ['A', 'x', 'R'], 0), ('R', [], 0), ('A', [], 0)])
    groups[0].append(pipeline.host_entry(extra, 0, gid='k2_chain@cs'))
    # error recovery: the error token is shifted on top of everything already there
    errs = [cat[n] for n in ('err_suite', 'err_stmt', 'err_block') if n in cat]
    errs.append(gram.Grammar('err_shift0', ['S', 'R'], ['a', 'b'], 'S', [('S', ['a', 'R'], 0), ('S', ['error', 'R'], 0), ('R', ['b', 'R'], 0), ('R', ['b'], 0)]))
    errs.append(gram.Grammar('err_nullable', ['S', 'A'], ['a', 'b'], 'S', [('S', ['A', 'a', 'S'], 0), ('S', ['b'], 0), ('S', ['error', 'b'], 0), ('A', [], 0)]))
    for g in errs:
        try:
            groups[1].append(pipeline.host_entry(g, 1, gid=g.name + '@cs'))
        except ValueError:
            pass
    Ls = 5 if tier == 'quick' else 7
    crecs, sent = [], []
    for v, es in groups.items():
        if not es:
            continue
        for e in es:
            pipeline.add_jobs(e, [s for s in all_inputs(e.g, Ls, 400 if tier == 'quick' else 3000) if len(s) <= 8], buf=2, verbose=False)
        hostc = vlib.build_binary('host%dc' % v, 'host.cpp', ('-DHOST_VARIANT=%d' % v, '-DVH_CSTR=10'))
        recs, crc, cerr = pipeline.run_host_binary(hostc, es, '%scstr%d' % (pid, v))
        if crc != 0:
            out.violations.append({'summary': {'class': 'cstring_buffer parses: process died', 'exit': crc, 'stderr': cerr[-300:]}, 'kind': 'caps', 'gid': 'cstr'})
        crecs += recs; sent += es
    # the specification's own prediction of the stack depth each input needs (TLC)
    given = [(r['g'], tuple(r['bytes']), True, True) for r in crecs]
    verd, rv = prun.spec_verdicts(sent, given, pid + 'v', tlc_workers=8) if given else ({}, None)
    nstack = 0
    k2_cases = []
    by_gid = {e.gid: e for e in sent}
    for r in crecs:
        nstack += 1
        e = by_gid[r['g']]
        v = verd.get((r['g'], tuple(r['bytes']), True, True))
        nempty = sum(1 for sl in e.tla['rules'] if not sl['r'])         # the host's EmptyRulesCount counts every arity-0 slot
        cap = len(r['bytes']) + 1 + nempty + 1
        oob = [ev for ev in r['events'] if ev[0] == 'oob']
        if oob or r['threw']:
            if v and v['maxstack'] > cap and all('push_back' in ev[1] or 'emplace_back' in ev[1] for ev in oob) and k2:
                k2_cases.append((e.g.name, bytes(r['bytes']).decode('latin-1'), v['maxstack'], cap))
            else:
                out.violations.append({'summary': {'grammar': r['g'], 'input': bytes(r['bytes']).decode('latin-1'), 'class': 'cstring_buffer parse: out-of-range access in a fixed vector',
                                                   'events': oob[:2], 'threw': r['threw'], 'spec_needs_depth': v and v['maxstack'], 'capacity': cap}, 'kind': 'caps', 'gid': r['g']})
        elif v and v['status'] in ('acc', 'rej') and (v['status'] == 'acc') != r['ok']:
            out.violations.append({'summary': {'grammar': r['g'], 'input': bytes(r['bytes']).decode('latin-1'), 'class': 'cstring_buffer parse: verdict differs from the specification'}, 'kind': 'caps', 'gid': r['g']})
    if k2_cases:
        g0, i0, need, cap = k2_cases[0]
        out.known.append('K2 fixed stacks of cstring_buffer parses (N + EmptyRules + 1) overflow: %d inputs, e.g. %s on %r needs depth %d, capacity %d' % (len(k2_cases), g0, i0, need, cap))
    return nstack, k2_cases, (rv.distinct if rv else 0), (rv.generated if rv else 0)


# ======================================================================================= C12
def check_C12(tier, seed):
    import rx as rxl, lx as lxl
    out = Outcome()
    rng = random.Random(seed)
    cat = {g.name: g for g in catalogue()}
    st_total = tr_total = 0
    runs = []
    # ---- (a) automaton size per pattern: nested repetitions, large counts
    pats = ['a{1}', 'a{2}', 'a{7}', 'a{40}', '(ab){3}', '(a|b){5}', '(a{2}){3}', '((ab){2}c){2}', '(a{3}|b{2}){2}', '([a-c]x){4}y', '(a?b){3}', '(a*){2}', '(a+b{2}){2}', 'x{0}', '(ab){0}c',
            '((a{2}){2}){2}', '(a|b|c){3}', '(a(b(c){2}){2}){2}', 'a{2}b{3}c{4}', '(ab|cd){2}(e|f){3}']
    pats += BLANK_PATTERNS        # the sizing pass and the building pass must read the pattern alike (blanks are characters)
    for n in (1, 2, 3):
        pats += [rxl.render(a) for a in rxl.enum_asts(n, atoms=['a', '[ab]'], unary=['*', '{2}', '{3}', '?'])]
    if tier != 'quick':
        pats += [rxl.render(a) for a in rxl.enum_asts(4, atoms=['a', '[ab]'], unary=['*', '{2}', '{3}', '?'])]
    for i in range(40 if tier == 'quick' else 600):
        pats.append(rxl.random_pattern(rng, depth=rng.choice([2, 3, 4])))
    pats = list(dict.fromkeys(pats))
    jobs = [('p%d' % i, list(p.encode('latin-1')), []) for i, p in enumerate(pats)]
    recs, crashed, _ = rxl.run_rx(jobs, 'C12rx')
    items, ref, model, static, st, tr, r1 = rx_items_check(recs, 'C12rxtlc', tlc_procs=4 if tier == 'quick' else 8)
    st_total += st; tr_total += tr; runs += r1
    nsize = 0
    for j, r in zip(jobs, recs):
        if r is None:
            continue
        if r['valid'] and not r['built'] and 'cvector' in (r['threw2'] or ''):
            out.notes.append('pattern needs more than the harness capacity, skipped: %r' % pat_text(j[1]))
            continue
        if r['built']:
            nsize += 1
            if r['size_pred'] < r['size_used']:
                out.violations.append({'summary': {'pattern': pat_text(j[1]), 'class': 'automaton larger than the size the analyser reserves', 'predicted': r['size_pred'], 'used': r['size_used']}, 'kind': 'rx', 'pattern': j[1]})
    for pid, d in static.items():
        if d['why'][0] in ('size-predicted', 'capacity', 'size-used', 'capacity-entry-point', 'entry-point-rejects'):
            out.violations.append({'summary': {'pattern': pat_text(jobs[int(pid[1:])][1]), 'class': 'size analysis: ' + d['why'][0], 'detail': d['why']}, 'kind': 'rx', 'pattern': jobs[int(pid[1:])][1]})
    # ---- (b) lexer capacity = sum of the terms' sizes
    sets = list(lxl.FAMILIES) + lxl.enum_sets(2)[::3 if tier == 'quick' else 1]
    # regex TERMS whose automaton is much larger than their text ({n} with a large count): the term's own capacity
    # (regex_term::dfa_size, summed into the lexer's) has to follow the size analysis, not the length of the pattern
    REP_SETS = [[lxl.R('a{9}'), lxl.C('x')], [lxl.R('[0-9]{12}'), lxl.R('[a-f]{7}x'), lxl.S('if')], [lxl.R('(ab){6}'), lxl.R('c{20}')]]
    sets += REP_SETS
    ljobs = [('l%d' % i, ts, []) for i, ts in enumerate(sets)]
    lrecs, lcr, _ = lxl.run_lx(ljobs, 'C12lx')
    if lcr:
        for c in lcr[:3]:
            out.violations.append({'summary': {'class': 'a lexer over well-formed terms cannot be built (the process died: capacity overrun)', 'terms': str(c)[:200]}, 'kind': 'lx', 'terms': []})
    litems, lref, lmodel, lstatic, st, tr, r2 = lx_items_check(lrecs, 'C12lxtlc', tlc_procs=4 if tier == 'quick' else 8)
    st_total += st; tr_total += tr; runs += r2
    for lid, d in lstatic.items():
        if d['why'][0] == 'capacity':
            out.violations.append({'summary': {'terms': lxl.set_text(ljobs[int(lid[1:])][1]), 'class': 'lexer automaton larger than the sum of the term sizes', 'detail': d['why']}, 'kind': 'lx', 'terms': ljobs[int(lid[1:])][1]})
    # real parsers over term sets: the lexer is built into a table of exactly that capacity (bounds hook)
    lex_entries = [pipeline.lex_entry('cap%d' % i, ts) for i, ts in enumerate(lxl.FAMILIES[:6 if tier == 'quick' else 17]) if pipeline.unique_term_names(ts)]
    # ... and lexers some of whose states send MOST byte values to one successor ('.', a negated set): the diagnostics list such
    # runs through buffers of their own
    lex_entries += [pipeline.lex_entry('capwide0', [lxl.R('.'), lxl.C('x')]), pipeline.lex_entry('capwide1', [lxl.R('"[^"]*"'), lxl.R('[\\x00-\\xff]x')])]
    lex_entries += [pipeline.lex_entry('caprep%d' % i, ts) for i, ts in enumerate(REP_SETS)]
    # ---- (c) default LR caps, (d) custom limits around the need
    names = ['expr_strat', 'paren_list', 'closure_memo', 'lr1_not_lalr', 'nullable_prefix', 'else_in_else'] + ([] if tier == 'quick' else ['first_cycle', 'll_pal', 'two_lists', 'expr_amb', 'unit_chain'])
    base = [pipeline.gen_entry(cat[n], gid=n + '@deflim') for n in names]
    # a grammar whose rules are ALL empty: the widest right side is the library's own root rule (one symbol)
    base.append(pipeline.gen_entry(cat['empty_only'], gid='empty_only@deflim'))
    base.append(pipeline.gen_entry(gram.Grammar('empty_two', ['S', 'A'], ['q'], 'S', [('S', [], 0), ('A', [], 0)]), gid='empty_two@deflim'))
    # a grammar with MORE LR(1) states than the default state cap (the cap is the number of situations; the canonical
    # collection of the right-linear grammar of (a|b)* a (a|b)^7 is exponential in the suffix): once with the default limits
    # (K3: they do not suffice - construction must then fail loudly), once with sufficient custom limits (how much is needed)
    gbig = gram.Grammar('rl_suffix7', ['S', 'A', 'B', 'C', 'D', 'E', 'F', 'G'], ['a', 'b'], 'S',
                        [('S', ['a', 'S'], 0), ('S', ['b', 'S'], 0), ('S', ['a', 'A'], 0)] +
                        [(x, [t, y], 0) for x, y in zip('ABCDEF', 'BCDEFG') for t in 'ab'] + [('G', ['a'], 0), ('G', ['b'], 0)])
    ebig_def = pipeline.gen_entry(gbig, gid='rl_suffix7@deflim')
    ebig_lim = pipeline.gen_entry(gbig, gid='rl_suffix7@lim', limits=(400, 400))
    all_default = []
    for g in catalogue():
        all_default += entries_for(g, hosts=(0, 1, 2), gen=False)
    # (the default-limits construction of the big grammar is run on its own: if it does NOT fail, what it produced was
    #  built past the library's tables and is judged as such, never handed to TLC as a table)
    big_died = None
    try:
        pipeline.run_harness([ebig_def], 'C12big')
    except Infra as ex:
        big_died = str(ex)[:300]
    res0, work0 = prun.run(base + [ebig_lim] + all_default + lex_entries, 'C12a', design_L=None, do_product=True, do_traces=False, tlc_procs=4 if tier == 'quick' else 8, tlc_workers=2)
    st_total += res0.states; tr_total += res0.transitions; runs += res0.tlc_runs
    for gid, d in res0.caps.items():
        out.violations.append({'summary': {'grammar': gid, 'class': 'capacity: ' + str(d['why'][0]), 'detail': d['why']}, 'kind': 'caps', 'gid': gid})
    need_big = res0.capsok.get(ebig_lim.gid)
    for e in base + all_default + lex_entries:
        if getattr(e, 'diag_threw', None):
            out.violations.append({'summary': {'grammar': e.gid, 'class': 'capacity: write_diag_str ran past one of its own fixed buffers (bounds hook)', 'hook': e.diag_threw}, 'kind': 'caps', 'gid': e.gid})
    threw_all = dict(res0.construct_threw)
    if ebig_def.construct_threw is not None:
        threw_all[ebig_def.gid] = ebig_def.construct_threw
    for gid, msg in threw_all.items():
        k3 = known_match('C12', 'default-state-cap')
        if gid == ebig_def.gid and k3 and need_big and need_big['states'] > need_big['defcap'] and 'State count exceeds the cap' in str(msg):
            out.known.append('K3 the default state cap (the number of situations) is not an upper bound of the number of LR(1) states: %s needs %d states, the default cap is %d - '
                             'construction with the default limits fails loudly ("%s"); with limits (400, 400) the parser is the specification\'s' % (gbig.name, need_big['states'], need_big['defcap'], msg))
            continue
        out.violations.append({'summary': {'grammar': gid, 'class': 'construction with DEFAULT limits failed', 'message': msg}, 'kind': 'caps', 'gid': gid})
    if ebig_def.gid not in threw_all:
        # more states than the cap and NO loud failure: whatever was produced was built past the library's own tables
        out.violations.append({'summary': {'grammar': ebig_def.gid, 'class': 'capacity: the grammar needs more states than the default cap and construction did NOT fail',
                                           'needs': need_big and need_big['states'], 'default_cap': need_big and need_big['defcap'],
                                           'reported_state_count': ebig_def.dump and ebig_def.dump.get('state_count'), 'process': big_died or (ebig_def.crashed and 'exit %s' % ebig_def.crashed)}, 'kind': 'caps', 'gid': ebig_def.gid})
    if not need_big:
        out.violations.append({'summary': {'grammar': ebig_lim.gid, 'class': 'capacity: a parser built with sufficient custom limits (400, 400) is not the specification\'s', 'threw': res0.construct_threw.get(ebig_lim.gid)}, 'kind': 'caps', 'gid': ebig_lim.gid})
    lim_entries, expect = [], {}
    for e in base:
        ok = res0.capsok.get(e.gid)
        if not ok or e.dump is None:
            continue
        ns, ni = ok['states'], ok['items']
        big = max(e.dump['state_cap'], 8)
        for ds in (-2, -1, 0, 1):
            le = pipeline.gen_entry(e.g, gid='%s@S%+d' % (e.g.name, ds), limits=(max(1, ns + ds), big))
            lim_entries.append(le); expect[le.gid] = ('states', ds >= 0, e)
        for di in (-2, -1, 0, 1):
            le = pipeline.gen_entry(e.g, gid='%s@I%+d' % (e.g.name, di), limits=(big, max(1, ni + di)))
            lim_entries.append(le); expect[le.gid] = ('items', di >= 0, e)
    for le in lim_entries:
        pipeline.add_jobs(le, all_inputs(le.g, 3, 60), verbose=False)
    res1, work1 = prun.run(lim_entries, 'C12b', design_L=None, do_product=True, do_traces=True, tlc_procs=4 if tier == 'quick' else 8, tlc_workers=2)
    st_total += res1.states; tr_total += res1.transitions; runs += res1.tlc_runs
    nlim = 0
    for le in lim_entries:
        which, should_work, be = expect[le.gid]
        nlim += 1
        threw = res1.construct_threw.get(le.gid)
        crashed_rc = [rc for g2, rc in res1.crashed if g2 == le.gid]
        summ = {'grammar': le.gid, 'limits(state_count_cap, max_sit_count_per_state_cap)': list(le.limits), 'needed': res0.capsok[be.gid], 'limit_varied': which}
        if should_work:
            if threw is not None or le.dump is None:
                out.violations.append({'summary': dict(summ, **{'class': 'sufficient limits rejected', 'message': threw}), 'kind': 'caps', 'gid': le.gid})
            elif le.dump['table'] != be.dump['table'] or le.dump['states'] != be.dump['states'] or res1.rejects.get(le.gid) or le.gid in res1.disagree:
                out.violations.append({'summary': dict(summ, **{'class': 'parser built with sufficient custom limits differs from the default-limits parser'}), 'kind': 'caps', 'gid': le.gid})
        else:
            if crashed_rc:
                out.violations.append({'summary': dict(summ, **{'class': 'too small limits: the process died instead of a loud rejection', 'exit': crashed_rc[0]}), 'kind': 'caps', 'gid': le.gid})
            elif threw is None:
                out.violations.append({'summary': dict(summ, **{'class': 'too small limits accepted: a parser was produced'}), 'kind': 'caps', 'gid': le.gid})
            elif 'cvector' in threw:
                out.violations.append({'summary': dict(summ, **{'class': 'too small limits are not checked by the library: it writes past its own vector (seen by the CTPG_VERIF bounds hook)', 'hook': threw}), 'kind': 'caps', 'gid': le.gid})
    # ---- (e) fixed stacks of cstring_buffer parses: N + EmptyRules + 1
    nstack, k2_cases, st_e, tr_e = cstring_stack_section(out, tier, 'C12', cat)
    st_total += st_e; tr_total += tr_e
    out.violations = out.violations[:12]
    out.coverage = {'states': int(st_total), 'transitions': int(max(tr_total, 1)), 'traces_validated_against_impl': int(res1.traces),
                    'patterns_size_checked': nsize, 'term_sets_capacity_checked': len(litems), 'parsers_default_caps_checked': len(res0.capsok),
                    'custom_limit_variants': nlim, 'cstring_buffer_parses': nstack, 'k2_attributed': len(k2_cases), 'tlc_runs': runs,
                    'samples': [{'pattern': pat_text(jobs[0][1]), 'predicted': recs[0]['size_pred'], 'used': recs[0]['size_used']},
                                {'limits_variant': lim_entries[0].gid, 'limits': list(lim_entries[0].limits)} if lim_entries else {}],
                    'exhaustive': False}
    out.assumptions = ['TLC + JSON reader', 'need = specification\'s canonical LR(1) collection (states, items per state); default cap formula transcribed in ProductTable!DefaultCap',
                       'library vectors observed by the CTPG_VERIF bounds hook', 'K2 attribution: overflow only in the cursor/value stack push, and the specification predicts a depth above the capacity for that input']
    return out


# ======================================================================================= C18
def check_C18(tier, seed):
    out = Outcome()
    rng = random.Random(seed)
    cat = {g.name: g for g in catalogue()}
    names = ['left_rec', 'paren_list', 'expr_strat', 'nullable_prefix', 'lr1_not_lalr', 'err_suite', 'err_stmt', 'expr_amb', 'expr_amb_noprec', 'dangling_else', 'expr_nonassoc']
    if tier != 'quick':
        names += ['closure_memo', 'two_lists', 'unit_chain', 'err_block', 'err_nested', 'right_rec_empty', 'mutual_rec', 'expr_unary', 'expr_rassoc']
    entries = [pipeline.clex_entry(cat[n]) for n in names if n in cat]
    # more terms than rules (and than nonterminals): every index the lexer may answer is a TERM index, whatever else the
    # grammar has fewer of
    entries.append(pipeline.clex_entry(gram.Grammar('wide_rule', ['S'], ['a', 'b', 'c', 'd', 'e'], 'S', [('S', ['a', 'b', 'c', 'd', 'e'], 0), ('S', ['S', 'e'], 0)])))
    L = 3 if tier == 'quick' else 4
    for e in entries:
        nt = len(e.g.ts)
        toks = [0x40 + 4 * i + (l - 1) for i in range(min(nt + 1, 16)) for l in (1, 2, 3)]       # incl. one index that is not a term
        if len(toks) > 9:
            toks = toks[:3] + rng.sample(toks[3:], 6)
        alpha = toks + [0x20, 0x0a, 0x21, 0x00]
        # every whitespace character between custom-lexer terms, under each option set: the lexer is asked at TERMS only
        wsx = [[toks[0], w, toks[0]] for w in (0x09, 0x0b, 0x0c, 0x0d)] + [[0x0c, toks[0]], [toks[0], 0x0c], [toks[0], 0x0b, 0x0d, 0x09, 0x0c, toks[0]]]
        for (ws_, nl_) in ((1, 1), (1, 0), (0, 1)):
            pipeline.add_jobs(e, wsx, verbose=True, ws=ws_, nl=nl_, tag='wsx%d%d_' % (ws_, nl_))
        if not e.g.has_error():
            # zero-length answers (virtual terms): byte 0x80 + i = term i with length 0, once per offset, then length 1
            # (not for error-rule grammars: discarding a zero-length term in consume mode makes no progress - the
            # library would ask again for ever; that is a property of such a lexer, not of the parser)
            alpha += [0x80 + i for i in range(min(nt, 2))] + [0x80 + nt]
        ins = []
        for sx in gram.all_strings(alpha, L):
            ins.append(sx)
            if len(ins) >= (2500 if tier == 'quick' else 20000):
                break
        for (ws, nl) in ((1, 1), (1, 0), (0, 1)):
            pipeline.add_jobs(e, ins if (ws, nl) == (1, 1) else ins[::5], verbose=True, ws=ws, nl=nl, tag='o%d%d_' % (ws, nl))
        pipeline.add_jobs(e, ins[::7], verbose=False, tag='nv')
        pipeline.add_jobs(e, ins[::11], verbose=True, buf=3, tag='ck')
        if len(entries) and e is entries[0] or e.g.name in ('left_rec', 'paren_list'):
            # one lexeme of a length around the 16-bit limit (the "no term" answer is index none / length 65535)
            pipeline.add_jobs(e, [[0x40, 0x90] + [0x78] * (n - 1) for n in ((65534, 65535, 65536) if tier == 'quick' else (255, 256, 65534, 65535, 65536, 65537, 131071))] + [[0x90, 0x20, 0x41], [0x90 + nt]],
                              verbose=False, tag='blob')
        for _ in range(30 if tier == 'quick' else 300):
            n = rng.randint(4, 40)
            pipeline.add_jobs(e, [[rng.choice(alpha + toks) for _ in range(n)]], verbose=bool(rng.getrandbits(1)), tag='r')
        # sentences of the grammar rendered with random lexeme lengths (accepted inputs of any length)
        for s in gengram.sentences(e.g, rng, 10 if tier == 'quick' else 60, max_len=30):
            b = []
            for ch in s:
                i = e.g.ts.index(chr(ch)); l = rng.choice([1, 2, 3])
                b += [0x40 + 4 * i + (l - 1)] + [rng.choice([0x21, 0x41, 0x7f, 0x20]) for _ in range(l - 1)]
                if rng.random() < 0.3:
                    b.append(rng.choice([0x20, 0x0a]))
            pipeline.add_jobs(e, [b], verbose=bool(rng.getrandbits(1)), tag='s')
    res, work = prun.run(entries, 'C18', design_L=None, do_product=True, tlc_procs=4 if tier == 'quick' else 8, tlc_workers=4 if tier == 'quick' else 2)
    domain = {e.gid for e in entries if e.gid in res.conflicts and res.conflicts[e.gid]['rr'] == 0}
    judge_traces(out, entries, res, {'table', 'step', 'functor', 'report', 'position', 'verdict', 'tree', 'extra', 'recovery', 'threw', 'oob', 'lexcall', 'partial-line'}, domain)
    out.coverage = base_coverage(res, {
        'grammars': len(entries), 'lexer_calls_validated': res.event_kinds.get('lexcall', 0), 'custom_term_values_validated': res.event_kinds.get('tval', 0),
        'bounds': {'L_all_inputs': L, 'lexer_answers': 'term index 0..#terms (one out of range), length 0 (virtual terms) and 1..3, no-term, length beyond the input'},
        'samples': sample_traces(entries, 3), 'exhaustive': False})
    out.assumptions = std_assumptions() + ['the custom lexer is harness/rt.hpp byte_lexer: its answer is a function of the byte it is asked at (Tables!LexByte), so the inputs enumerate arbitrary (index, length) answers']
    return out


# ======================================================================================= C13
def check_C13(tier, seed):
    out = Outcome()
    rng = random.Random(seed)
    cat = {g.name: g for g in catalogue()}
    names = ['left_rec', 'paren_list', 'expr_strat', 'nullable_prefix', 'expr_amb', 'err_suite', 'two_lists', 'expr_unary', 'expr_ruleprec_low', 'nullable_then_nt']
    if tier != 'quick':
        names += ['closure_memo', 'lr1_not_lalr', 'unit_chain', 'err_stmt', 'right_rec_empty', 'mutual_rec', 'dangling_else', 'opt_tail', 'nullable2_then_nt', 'root_listed_mid']
    entries = []
    for n in names:
        g = cat[n]
        k = len(g.rules)
        variants = [set(range(k)), set(range(0, k, 2)), set(range(1, k, 2)), set()]
        if tier != 'quick':
            variants.append({i for i in range(k) if rng.random() < 0.5})
        for vi, cs in enumerate(variants):
            # rules with a precedence: written (rule[p] >>= f) in odd variants and (rule >>= f)[p] in even ones
            pp = [i for i, (_, _, pr) in enumerate(g.rules) if pr] if vi % 2 == 0 else []
            # value-less nonterminals (nterm<no_type>) in the even variants: every non-root nonterminal that is not the left
            # side of a functor-less rule; their functors (>= and >>=) are still called, in order, with the context
            nv = [i for i, x in enumerate(g.nts) if x != g.root] if vi % 2 == 0 else []
            # (variants 0 and 1: the even contextual rules KEEP their result in the caller's object and return a reference to it;
            #  the object the caller reads afterwards must still hold it - 'context-mutations' turns negative otherwise)
            entries.append(pipeline.gen_entry(g, gid='%s@ctx%d' % (n, vi), ctx=sorted(cs), postprec=pp, noval=nv, ctxref=vi in (0, 1), reattach=vi in (1, 3)))
    L = 4 if tier == 'quick' else 5
    for e in entries:
        ins = all_inputs(e.g, L if len(e.g.ts) <= 3 else L - 1, 300 if tier == 'quick' else 2000)
        sents = gengram.sentences(e.g, rng, 5 if tier == 'quick' else 25, max_len=40)
        # blanks and newlines between the terms (the overloads without an options argument must mean the default options)
        wsin = [x for x in ws_inputs(e.g, 3, [32, 10], 400) if 32 in x or 10 in x][::7][:40 if tier == 'quick' else 200]
        cats = (1, 2, 3, 4, 5, 6, 7, 8) if e.ctx else (0, 1, 2, 3, 4, 5, 6, 7, 8)       # 6: a context type that overloads unary &; 7 / 8: a small trivially copyable context as const lvalue / rvalue
        for c in cats:
            pipeline.add_jobs(e, ins if c in (1, 2) else ins[::3], verbose=(c == 1), ctx=c, tag='c%d_' % c)
            pipeline.add_jobs(e, sents, verbose=False, ctx=c, tag='s%d_' % c)
            pipeline.add_jobs(e, wsin, verbose=False, ctx=c, tag='w%d_' % c)
            if c in (1, 2):
                pipeline.add_jobs(e, wsin[::2], verbose=False, ctx=c, stream=1, tag='wn%d_' % c)       # context_parse(ctx, buffer)
    res, work = prun.run(entries, 'C13', design_L=None, do_product=False, tlc_procs=4 if tier == 'quick' else 8, tlc_workers=4 if tier == 'quick' else 2)
    domain = {e.gid for e in entries}
    judge_traces(out, entries, res, {'functor', 'context-mutations', 'tree', 'verdict', 'extra:ccall', 'extra:call', 'threw'}, domain)
    # traces abandoned at a table difference (e.g. a precedence lost together with the way a functor was attached): the
    # functors must still have run in the specification's reduction order
    judge_abandoned(out, entries, res, domain, 'C13ab', what=('ok', 'calls'))
    # grammars that ignore the context: parse() and context_parse() give the same result
    ncmp = 0
    for e in entries:
        if e.ctx:
            continue
        byin = collections.defaultdict(dict)
        for t in e.traces:
            byin[tuple(t['bytes'])][t['ctx']] = t
        for b, d in byin.items():
            ref = d.get(0)
            if not ref:
                continue
            for c, t in d.items():
                ncmp += 1
                if t['ok'] != ref['ok'] or json.dumps(t['tree']) != json.dumps(ref['tree']):
                    out.violations.append({'summary': {'grammar': e.gid, 'input': bytes(b).decode('latin-1'), 'class': 'context_parse differs from parse although no functor takes the context', 'context_category': c},
                                           'kind': 'parser', 'gname': e.g.name, 'mode': e.mode, 'gid': e.gid, 'dflt': [], 'lexterms': None, 'clex': False,
                                           'grammar': {'nts': e.g.nts, 'ts': e.g.ts, 'root': e.g.root, 'rules': e.g.rules, 'tprec': e.g.tprec, 'tassoc': e.g.tassoc},
                                           'bytes': list(b), 'ws': 1, 'nl': 1, 'verbose': 0, 'stream': 0, 'buf': 0})
    shared = shared_functor_type(out, vlib.scratch('C13sf'))
    out.violations = out.violations[:12]
    out.coverage = base_coverage(res, {
        'one_stateless_functor_type_on_plain_and_contextual_rules': shared,
        'grammars': len(entries), 'contextual_calls_validated': res.event_kinds.get('ccall', 0), 'plain_calls_validated': res.event_kinds.get('call', 0),
        'context_categories': ['none (parse)', 'non-const lvalue', 'const lvalue', 'rvalue', 'move-only lvalue', 'move-only rvalue'],
        'parse_vs_context_parse_comparisons': ncmp, 'bounds': {'L_all_inputs': L},
        'samples': sample_traces([e for e in entries if e.ctx], 3), 'exhaustive': False})
    out.assumptions = std_assumptions() + ['context identity = address comparison with the caller\'s object; constness from the deduced parameter type; caller-visible mutation counter read after the call']
    return out


def shared_functor_type(out, work):
    """harness/sharedftor.cpp: ONE stateless functor type attached with >= to some rules and >>= to others (same value types);
    whether a reduction hands over the context is decided by the rule, for every word over 4 terms up to length 6"""
    exe = os.path.join(work, 'sharedftor')
    r = subprocess.run(['g++', '-std=c++17', '-O1', '-I' + os.path.join(vlib.REPO, 'include'), os.path.join(vlib.HARNESS, 'sharedftor.cpp'), '-o', exe], capture_output=True, text=True, timeout=900)
    if r.returncode != 0:
        out.violations.append({'summary': {'class': 'one functor type attached with >= and >>= in one grammar does not compile', 'compiler_says': r.stderr[:500]}, 'kind': 'helpers'})
        return {'compiled': False}
    rr = subprocess.run([exe], capture_output=True, text=True, timeout=600)
    done = [ln.split() for ln in rr.stdout.splitlines() if ln.startswith('DONE')]
    for ln in [l for l in rr.stdout.splitlines() if l.startswith('BAD')][:3]:
        out.violations.append({'summary': {'class': 'one stateless functor type on a >= rule and a >>= rule: the context goes to the wrong calls', 'detail': ln[4:300]}, 'kind': 'helpers'})
    if rr.returncode != 0 or not done:
        out.violations.append({'summary': {'class': 'shared-functor-type program died', 'exit': rr.returncode}, 'kind': 'helpers'})
        return {'compiled': True, 'completed': False}
    return {'words': int(done[0][1]), 'functor_calls_compared': int(done[0][2]), 'grammars': 2}


# ======================================================================================= C14
def values_check(entries, workname, tlc_procs=4):
    import traces as tl
    items = []
    for e in entries:
        for t in e.traces:
            items.append(tl.values_item(t))
    return values_items_check(items, workname, tlc_procs)


def values_items_check(items, workname, tlc_procs=4):
    work = vlib.scratch(workname)
    tasks = []
    for ci, part in enumerate(pipeline.chunks(items, tlc_procs)):
        ip = os.path.join(work, 'val%d.ndjson' % ci)
        vlib.write_ndjson(ip, part)
        cfg = pipeline.write_cfg(work, 'val%d' % ci, 'Spec', ['Reported'])
        tasks.append((lambda ip=ip, cfg=cfg, ci=ci: vlib.run_tlc('TraceValues', cfg, {'VERIF_VALUES': ip}, '%s_val%d' % (workname, ci), workers=4, timeout=1500)))
    outs = vlib.run_parallel(tasks)
    probs = []
    st = tr = 0
    for r in outs:
        if r.exit != 0 or r.errors:
            raise Infra('TraceValues failed: %s\n%s' % (r.errors[:3], r.out[-2000:]))
        st += r.distinct; tr += r.generated
        probs += r.lines.get('VALUES', [])
    return probs, len(items), st, tr, sum(len(i['events']) for i in items)


def check_C14(tier, seed):
    out = Outcome()
    rng = random.Random(seed)
    cat = {g.name: g for g in catalogue()}
    names = ['left_rec', 'paren_list', 'expr_strat', 'nullable_prefix', 'expr_amb', 'err_suite', 'err_stmt', 'err_block', 'two_lists', 'err_pop_reduce']
    if tier != 'quick':
        names += ['closure_memo', 'lr1_not_lalr', 'unit_chain', 'right_rec_empty', 'mutual_rec', 'dangling_else', 'err_nested', 'err_readme', 'err_first', 'err_last', 'err_pop2_reduce']
    entries = []
    for n in names:
        g = cat[n]
        entries.append(pipeline.gen_entry(g, gid=n + '@val'))
        if len(entries) % 2:
            # the same grammar with a value type whose move operations are not declared noexcept: still moved, never copied
            entries.append(pipeline.gen_entry(g, gid=n + '@valmt', defines=('VH_MOVE_MAY_THROW',)))
            # ... and with a value type that has a move constructor but NO move assignment (assigning to it copies): the library
            # hands values on by construction, never by assigning over a used slot
            entries.append(pipeline.gen_entry(g, gid=n + '@valnma', defines=('VH_NO_MOVE_ASSIGN',)))
            # ... and with non-root nonterminals of a SECOND value type built from what the functors return (a conversion of the
            # functor's result - an rvalue - into the left side's type: moved, not copied)
            entries.append(pipeline.gen_entry(g, gid=n + '@valalt', alt_nts=[i for i, x in enumerate(g.nts) if x != g.root]))
        if not g.has_error():
            entries.append(pipeline.gen_entry(g, gid=n + '@valdflt', dflt=sorted(range(0, len(g.rules), 2))))
            # (the odd rules without a functor: in most catalogue grammars these are the UNIT rules, whose value is handed on)
            entries.append(pipeline.gen_entry(g, gid=n + '@valdflt1', dflt=sorted(range(1, len(g.rules), 2))))
        entries.append(pipeline.gen_entry(g, gid=n + '@valctx', ctx=sorted(range(0, len(g.rules), 2))))
        if g.has_error() or n in ('paren_list', 'expr_strat'):
            entries.append(pipeline.gen_entry(g, gid=n + '@valnv', nvterms=[i for i in range(len(g.ts)) if i % 2 == 1]))      # value-less terms
    L = 4 if tier == 'quick' else 5
    for e in entries:
        ins = ws_inputs(e.g, L if len(e.g.ts) <= 3 else L - 1, [ord('?')], 400 if tier == 'quick' else 3000)      # success, syntax errors, lexical errors, recovery
        cx = rng.choice([1, 3, 4, 5]) if getattr(e, 'ctx', ()) else 0
        pipeline.add_jobs(e, ins, verbose=False, ctx=cx)
        if e.g.name in ('paren_list', 'expr_strat') and (e.gid.endswith('@valmt') or e.gid.endswith('@val')):
            # hundreds of values pending at once (the value stack is reserved for 1024 before a parse: no growth, hence no
            # relocation of values, below that; beyond it std::vector relocates - see DESIGN section 6, observations)
            pipeline.add_jobs(e, [[40] * d + [ord('x' if e.g.name == 'paren_list' else 'n')] + [41] * d for d in (70, 300)], verbose=False, tag='deep')
        for s in gengram.sentences(e.g, rng, 5 if tier == 'quick' else 30, max_len=60 if tier == 'quick' else 300):
            pipeline.add_jobs(e, [s], verbose=False, tag='s', ctx=cx)
            if s:
                m = list(s); m[rng.randrange(len(m))] = rng.choice([ord(c) for c in e.g.ts] + [ord('?')])
                pipeline.add_jobs(e, [m], verbose=False, tag='m', ctx=cx)
    res, work = prun.run(entries, 'C14', design_L=None, do_product=False, tlc_procs=4 if tier == 'quick' else 8, tlc_workers=4 if tier == 'quick' else 2, env={'VERIF_TRACK': '1'})
    judge_traces(out, entries, res, {'functor', 'tree', 'verdict', 'threw'}, {e.gid for e in entries})
    probs, ntr, st, tr, nev = values_check(entries, 'C14v', tlc_procs=4 if tier == 'quick' else 8)
    by_id = {t['id']: (e, t) for e in entries for t in e.traces}
    per = collections.Counter()
    for d in probs:
        e, t = by_id[d['id']]
        per[(e.g.name, d['why'][0])] += 1
        per[d['why'][0]] += 1
        if per[(e.g.name, d['why'][0])] > 1 or per[d['why'][0]] > 3:
            continue
        v = trace_violation(e, {'id': d['id'], 'g': e.gid, 'why': d['why'], 'trace': t}, 'lifecycle')
        v['summary']['class'] = 'value lifecycle: ' + d['why'][0]
        v['summary']['real_event'] = None
        out.violations.append(v)
    # the FIXED-capacity value stack (cstring_buffer + trivially destructible values): same lifecycle automaton
    fsrc = os.path.join(vlib.HARNESS, 'fixedvec.cpp')
    fexe = os.path.join(work, 'fixedvec')
    fr = subprocess.run(['g++', '-std=c++17', '-O1', '-I' + os.path.join(vlib.REPO, 'include'), fsrc, '-o', fexe], capture_output=True, text=True, timeout=600)
    nfixed = 0
    if fr.returncode != 0:
        import re as _re
        m = _re.search(r'ctpg\.hpp:(\d+):\d+: error: ([^\n]*)', fr.stderr)
        out.violations.append({'summary': {'class': 'a parser over trivially destructible value types (fixed-capacity value stack) does not compile', 'where': m.group(0)[:200] if m else fr.stderr[:300]}, 'kind': 'moveonly'})
    else:
        fout = os.path.join(work, 'fixedvec.ndjson')
        fr2 = subprocess.run([fexe, fout], capture_output=True, text=True, timeout=120)
        fitems = vlib.read_ndjson_lenient(fout)
        if fr2.returncode != 0 or not fitems:
            out.violations.append({'summary': {'class': 'the fixed-capacity value stack run died', 'exit': fr2.returncode, 'stderr': fr2.stderr[-300:]}, 'kind': 'moveonly'})
        else:
            fprobs, nfixed, st_f, tr_f, _ = values_items_check(fitems, 'C14fv', tlc_procs=2)
            st += st_f; tr += tr_f
            for d in fprobs[:3]:
                out.violations.append({'summary': {'class': 'value lifecycle on the fixed-capacity value stack: ' + d['why'][0], 'run(buffer:input)': d['id'], 'detail': d['why']}, 'kind': 'moveonly'})
    # a functor that THROWS: the exception is the caller's (it reaches the caller of parse()), and the values of the abandoned
    # parse are destroyed exactly once on the way out - the same lifecycle automaton
    tsrc = os.path.join(vlib.HARNESS, 'throwing.cpp')
    texe = os.path.join(work, 'throwing')
    tr_ = subprocess.run(['g++', '-std=c++17', '-O1', '-I' + os.path.join(vlib.REPO, 'include'), tsrc, '-o', texe], capture_output=True, text=True, timeout=600)
    nthrow = 0
    if tr_.returncode != 0:
        out.violations.append({'summary': {'class': 'a parser whose functor may throw does not compile', 'where': tr_.stderr[:400]}, 'kind': 'moveonly'})
    else:
        tout = os.path.join(work, 'throwing.ndjson')
        tr2 = subprocess.run([texe, tout], capture_output=True, text=True, timeout=120)
        titems = vlib.read_ndjson_lenient(tout)
        expect_throw = {it['id']: ('!' in it['id'].split(':')[-1] if it['id'].startswith(('after:', 'base:')) else '!' in it['id']) for it in titems}
        if tr2.returncode != 0 or len(titems) < 20:
            out.violations.append({'summary': {'class': 'an exception thrown by a rule functor does not reach the caller of parse()' if tr2.returncode == 70 else 'the throwing-functor run died',
                                               'exit': tr2.returncode, 'input': None if len(titems) >= 20 else 'the one after ' + (titems[-1]['id'] if titems else '(none)'), 'stderr': tr2.stderr[-300:]}, 'kind': 'moveonly'})
        for it in titems:
            if it['threw'] != expect_throw[it['id']]:
                out.violations.append({'summary': {'class': 'a functor threw and parse() %s' % ('returned normally' if not it['threw'] else 'threw although no functor did'), 'run': it['id']}, 'kind': 'moveonly'})
        if titems:
            tprobs, nthrow, st_t, tr_t, _ = values_items_check(titems, 'C14thr', tlc_procs=2)
            st += st_t; tr += tr_t
            for d in tprobs[:3]:
                out.violations.append({'summary': {'class': 'value lifecycle when a functor throws: ' + d['why'][0], 'run': d['id'], 'detail': d['why']}, 'kind': 'moveonly'})
    # move-only value types (term values and functor results) must compile and work
    src = os.path.join(vlib.HARNESS, 'moveonly.cpp')
    exe = os.path.join(work, 'moveonly')
    r = subprocess.run(['g++', '-std=c++17', '-I' + os.path.join(vlib.REPO, 'include'), src, '-o', exe], capture_output=True, text=True, timeout=600)
    if r.returncode != 0:
        import re as _re
        m = _re.search(r'ctpg\.hpp:(\d+):\d+: error: ([^\n]*)', r.stderr)
        out.violations.append({'summary': {'class': 'a parser whose term values are move-only does not compile', 'where': m.group(0)[:200] if m else r.stderr[:300]}, 'kind': 'moveonly'})
    else:
        r2 = subprocess.run([exe], capture_output=True, text=True, timeout=60)
        if r2.returncode != 0:
            out.violations.append({'summary': {'class': 'move-only parser misbehaves', 'output': r2.stdout[-200:]}, 'kind': 'moveonly'})
    out.violations = out.violations[:12]
    kinds = collections.Counter(ev[0] for e in entries for t in e.traces for ev in t['events'] if ev[0].startswith('v_'))
    out.coverage = base_coverage(res, {
        'grammars': len(entries), 'lifecycle_traces_validated': ntr, 'lifecycle_events_validated': nev, 'lifecycle_event_kinds': dict(kinds),
        'paths': {'accepted': sum(1 for e in entries for t in e.traces if t['ok']), 'failed': sum(1 for e in entries for t in e.traces if not t['ok']),
                  'with_recovery': sum(1 for e in entries if e.g.has_error() for t in e.traces)},
        'move_only_translation_unit': 'harness/moveonly.cpp', 'fixed_capacity_value_stack_runs_validated': nfixed, 'bounds': {'L_all_inputs_incl_unknown_byte': L},
        'samples': [{'trace': d['id'], 'events': [ev for ev in by_id[d['id']][1]['events'] if ev[0].startswith('v_')][:10]} for d in [{'id': entries[0].traces[5]['id']}]], 'exhaustive': False})
    out.coverage['states'] += st
    out.coverage['transitions'] += tr
    out.assumptions = std_assumptions() + ['object identity = ids assigned by the tracked value type (harness Node under VERIF_TRACK); payload = derivation-tree node id']
    return out


# ======================================================================================= C15
def check_C15(tier, seed):
    out = Outcome()
    rng = random.Random(seed)
    cat = {g.name: g for g in catalogue()}
    work = vlib.scratch('C15')
    # ---- (A) the interleaving argument, stated and model-checked
    cfg = os.path.join(work, 'conc.cfg')
    with open(cfg, 'w') as f:
        f.write('SPECIFICATION Spec\nCONSTANTS\n  Threads = {1, 2%s}\n  Syms = {10, 11}\n  K = 3\n  MaxLen = 2\n  Calls = %d\nINVARIANT Isolated\nPROPERTY Immutable\nCHECK_DEADLOCK FALSE\n'
                % ('' if tier == 'quick' else ', 3', 2 if tier == 'quick' else 1))
    rc = vlib.run_tlc('Concurrent', cfg, {}, 'C15_conc', workers=8, timeout=1500)
    if rc.exit != 0 or rc.errors:
        raise Infra('Concurrent.tla fails its own properties (spec bug): %s' % rc.errors[:3])
    # ---- (B) binding: T threads on one real parser object; byte image; per-thread traces validated sequentially
    names = ['left_rec', 'paren_list', 'expr_strat', 'expr_amb', 'err_suite', 'err_stmt', 'nullable_prefix']
    if tier != 'quick':
        names += ['closure_memo', 'lr1_not_lalr', 'two_lists', 'err_block', 'dangling_else', 'unit_chain']
    T = 4 if tier == 'quick' else 8
    hosts = pipeline.host_bins()
    tsan = vlib.build_binary('host0_tsan', 'host.cpp', ('-DHOST_VARIANT=0', '-fsanitize=thread', '-g'), cxx='clang++')
    tsan1 = vlib.build_binary('host1_tsan', 'host.cpp', ('-DHOST_VARIANT=1', '-fsanitize=thread', '-g'), cxx='clang++')
    entries = []
    for n in names:
        g = cat[n]
        try:
            e = pipeline.host_entry(g, 1 if g.has_error() else 0, gid=n + '@thr')
        except ValueError:
            continue        # rule shapes the host translation units do not offer (threads run on host parsers only)
        ins = ws_inputs(g, 4 if len(g.ts) <= 2 else 3, [ord('?'), 32], 120 if tier == 'quick' else 500)      # accepted, failing, recovering calls mixed
        t0 = ord(g.ts[0])
        ins += [[0xe9], [t0, 0xe9], [t0, 0x80, t0], [0xff, t0], [t0, 32, 32, 32, 32, 32, 32, 32, 32, 32, 32, 32, ord('?')]]     # bytes >= 0x80 in messages, columns >= 10
        for s in gengram.sentences(g, rng, 6, max_len=40):
            ins.append(s)
        rng.shuffle(ins)
        pipeline.add_jobs(e, ins, verbose=False)
        pipeline.add_jobs(e, ins[::4], verbose=True, tag='v')
        pipeline.add_jobs(e, ins[::2], verbose=False, stream=2, tag='os')      # diagnostics through the library's own std::ostream inserters
        pipeline.add_jobs(e, ins[::4], verbose=True, stream=2, tag='ov')
        # the other entry points and an OWNING buffer: context_parse (with and without a stream argument) on a string_buffer
        # the caller keeps - the lexemes every call hands out must lie in THAT buffer (offsets), whatever other calls do meanwhile
        pipeline.add_jobs(e, ins[1::4], verbose=False, buf=1, ctx=1, tag='cx')
        pipeline.add_jobs(e, ins[2::4], verbose=False, buf=1, stream=1, ctx=1, tag='cn')
        pipeline.add_jobs(e, ins[3::4], verbose=False, buf=1, ctx=2, tag='cc')
        pipeline.add_jobs(e, ins[3::4], verbose=False, buf=1, stream=1, tag='sb')
        entries.append(e)
    nthr_traces = 0
    images = []

    diags = {}

    def run_threads(label, binp, es, is_host):
        nonlocal nthr_traces
        recs_all = vlib.scratch('C15run')
        base = os.path.join(recs_all, 'x')
        if is_host:
            with open(base + '.desc', 'w') as f:
                for e in es:
                    f.write(e.desc)
        pipeline._write_jobs(base + '.jobs', es)
        env = dict(os.environ); env['VERIF_THREADS'] = str(T); env['TSAN_OPTIONS'] = 'halt_on_error=0:report_signal_unsafe=0'
        cmd = [binp] + ([base + '.desc'] if is_host else []) + [base + '.jobs', base + '.out']
        try:
            r = subprocess.run(cmd, capture_output=True, text=True, timeout=300 if tier == 'quick' else 1200, env=env)
        except subprocess.TimeoutExpired:
            # (the run takes seconds; threads that corrupt each other's state may never finish)
            out.violations.append({'summary': {'class': '%s build, %d threads on one parser object: no result within the time budget (calls that finish in isolation do not finish side by side)' % (label, T),
                                               'grammars': [e.gid for e in es]}, 'kind': 'threads'})
            return
        if r.returncode != 0 or 'ThreadSanitizer' in r.stderr:
            out.violations.append({'summary': {'class': '%s build, %d threads on one parser object: %s' % (label, T, 'data race reported by ThreadSanitizer' if 'ThreadSanitizer' in r.stderr else 'process ended with exit %s' % r.returncode),
                                               'grammars': [e.gid for e in es], 'report': r.stderr[:1200]}, 'kind': 'threads'})
        for rec in vlib.read_ndjson_lenient(base + '.out'):
            if 'image' in rec:
                images.append(rec)
                if rec['changed']:
                    out.violations.append({'summary': {'class': 'the parser object was modified by parse calls', 'grammar': rec['image'], 'bytes_changed': rec['changed'], 'object_size': rec['bytes'], 'build': label}, 'kind': 'threads'})
            elif 'dump' in rec:
                [e for e in es if e.gid == rec['dump']['g']][0].dump = rec['dump']
            elif 'diag' in rec:
                diags[(label, len(es), rec['g'])] = rec['diag']
            elif 'id' in rec and label.startswith('plain'):
                [e for e in es if e.gid == rec['g']][0].traces.append(rec)
                nthr_traces += 1
                if any(ev[0] == 'lexshared' for ev in rec['events']):
                    out.violations.append({'summary': {'class': 'one custom lexer object served two calls at the same time (its working data changed under a call)', 'grammar': rec['g'],
                                                       'input': bytes(rec['bytes']).decode('latin-1')}, 'kind': 'threads'})

    for variant, plain, sanit in ((0, hosts['host0'], tsan), (1, hosts['host1'], tsan1)):
        es = [e for e in entries if e.mode == 'host%d' % variant]
        if not es:
            continue
        for label, binp in (('plain', plain), ('tsan', sanit)):
            run_threads(label, binp, es, True)
        # several parser objects of ONE C++ type live in that process (one per grammar): what write_diag_str says about the last
        # one must be what it says when that object is the only one of its type (a process of its own)
        if len(es) > 1:
            last = es[-1]
            saved = (last.traces, last.dump)
            last.traces = []
            run_threads('plain-alone', plain, [last], True)
            last.traces, last.dump = saved
            a, b = diags.get(('plain', len(es), last.gid)), diags.get(('plain-alone', 1, last.gid))
            if a is not None and b is not None and a != b:
                import difflib
                dl = [l for l in difflib.unified_diff(b.splitlines(), a.splitlines(), lineterm='', n=0) if l[:1] in '+-' and l[:3] not in ('+++', '---')]
                out.violations.append({'summary': {'class': 'write_diag_str of a parser object depends on OTHER parser objects of the same type in the process', 'grammar': last.gid,
                                                   'alone/among_others': dl[:4]}, 'kind': 'threads'})
    # ---- a parser with a CUSTOM lexical analyzer that keeps the working data of a call in its members (as hand-written
    # scanners do): calls are independent only if no lexer OBJECT is shared between them
    import gen_tu
    eclex = pipeline.clex_entry(cat['paren_list'], gid='c15clex@clex')
    nt_ = len(eclex.g.ts)
    cins = [sx for sx in gram.all_strings([0x40 + 4 * i for i in range(nt_)] + [0x41, 0x20, 0x21], 4)][:300 if tier == 'quick' else 2000]
    cins += [[0x40 + 4 * eclex.g.ts.index(chr(c)) for c in sx] for sx in gengram.sentences(eclex.g, rng, 10, max_len=40)]
    pipeline.add_jobs(eclex, cins, verbose=False)
    pipeline.add_jobs(eclex, cins[::5], verbose=True, tag='v')
    csrc = os.path.join(work, 'c15clex.cpp')
    with open(csrc, 'w') as f:
        f.write(gen_tu.clex_tu(eclex.g, eclex.gid))
    cbins = vlib.build_many([('c15clex_plain', csrc, ()), ('c15clex_tsan', csrc, ('-fsanitize=thread', '-g'), 'clang++')])
    entries.append(eclex)
    for label in ('plain', 'tsan'):
        run_threads(label + ' (custom lexer)', cbins['c15clex_' + label], [eclex], False)
    # ---- a call AFTER a call that was abandoned by an exception (a functor threw): nothing of the abandoned call is left behind
    texe = os.path.join(work, 'throwing')
    tr_ = subprocess.run(['g++', '-std=c++17', '-O1', '-I' + os.path.join(vlib.REPO, 'include'), os.path.join(vlib.HARNESS, 'throwing.cpp'), '-o', texe], capture_output=True, text=True, timeout=600)
    nafter = 0
    if tr_.returncode == 0:
        tout = os.path.join(work, 'throwing.ndjson')
        tr2 = subprocess.run([texe, tout], capture_output=True, text=True, timeout=120)
        titems = vlib.read_ndjson_lenient(tout)
        shape = lambda it: (it['ok'], it['threw'], [ev[0] for ev in it['events']])
        base_ = [it for it in titems if it['id'].startswith('base:')]
        for it in titems:
            if it['id'].startswith('after:') and base_:
                nafter += 1
                if shape(it) != shape(base_[0]):
                    out.violations.append({'summary': {'class': 'a call after a call that an exception abandoned differs from the same call in isolation', 'abandoned_call_text': it['id'].split(':')[1],
                                                       'call_text': 'x,x,(x)', 'in_isolation': {'ok': base_[0]['ok'], 'events': len(base_[0]['events'])}, 'after': {'ok': it['ok'], 'threw': it['threw'], 'events': len(it['events'])}}, 'kind': 'threads'})
        if tr2.returncode != 0 or not base_ or nafter < 4:
            out.violations.append({'summary': {'class': 'calls after an abandoned call: the process died', 'exit': tr2.returncode, 'stderr': tr2.stderr[-300:]}, 'kind': 'threads'})
    # every per-thread trace must be a behaviour of the SEQUENTIAL specification, with the verdict/tree of the isolated call
    live = [e for e in entries if e.dump is not None and e.traces]
    tasks = []
    for ci, part in enumerate(pipeline.chunks(live, 4 if tier == 'quick' else 8)):
        env, ntr = pipeline.tlc_inputs(part, work, 'thr%d' % ci, with_traces=True)
        cfg2 = pipeline.write_cfg(work, 'thr%d' % ci, 'Spec', ['RejectionsReported', 'Progress', 'Safe'])
        tasks.append((part, (lambda env=env, cfg2=cfg2, ci=ci: vlib.run_tlc('TraceDriver', cfg2, env, 'C15_thr%d' % ci, workers=4, timeout=1500))))
    outs = vlib.run_parallel([t[1] for t in tasks])
    st, tr = rc.distinct, rc.generated
    class R: pass
    res = R(); res.rejects = collections.defaultdict(list); res.crashed = []
    for (part, _), r in zip(tasks, outs):
        if r.exit != 0 or r.errors:
            raise Infra('TraceDriver failed: %s\n%s' % (r.errors[:3], r.out[-2000:]))
        st += r.distinct; tr += r.generated
        tr_by_id = {t['id']: t for e in part for t in e.traces}
        for d in r.lines.get('REJECT', []):
            d['trace'] = tr_by_id.get(d['id'])
            res.rejects[d['g']].append(d)
    judge_traces(out, entries, res, {'table', 'step', 'functor', 'report', 'position', 'verdict', 'tree', 'extra', 'recovery', 'threw', 'partial-line', 'oob'}, None)
    # the same call from different threads / at different points of the history gives the same result
    ncmp = 0
    for e in entries:
        byjob = collections.defaultdict(list)
        for t in e.traces:
            byjob[t['id'].split('#')[0]].append(t)
        for jid, ts in byjob.items():
            for t in ts[1:]:
                ncmp += 1
                if t['ok'] != ts[0]['ok'] or json.dumps(t['tree']) != json.dumps(ts[0]['tree']) or t.get('stream_text') != ts[0].get('stream_text'):
                    out.violations.append({'summary': {'class': 'the same call gave different results in different threads', 'grammar': e.gid, 'input': bytes(t['bytes']).decode('latin-1')}, 'kind': 'threads'})
    for e in entries:
        cap = {}
        for t in e.traces:
            if t['stream'] == 0:
                cap[(tuple(t['bytes']), t['verbose'])] = ''.join(ev[1] + '\n' for ev in t['events'] if ev[0] == 'L' and 'REGEX MATCH' not in ev[1])
        for t in e.traces:
            if t['stream'] == 2:
                want = cap.get((tuple(t['bytes']), t['verbose']))
                got = ''.join(l + '\n' for l in t['stream_text'].split('\n')[:-1] if 'REGEX MATCH' not in l)
                if want is not None and got != want:
                    ncmp += 1
                    out.violations.append({'summary': {'class': 'text written to a std::ostream by one thread differs from the validated lines of the same call', 'grammar': e.gid,
                                                       'input': bytes(t['bytes']).decode('latin-1'), 'thread_job': t['id'], 'got': got[:200], 'expected': want[:200]}, 'kind': 'threads'})
    out.violations = out.violations[:12]
    out.coverage = {'states': int(st), 'transitions': int(max(tr, 1)), 'traces_validated_against_impl': nthr_traces,
                    'interleaving_model': {'module': 'Concurrent.tla', 'threads': 2 if tier == 'quick' else 3, 'distinct_states': rc.distinct},
                    'threads_per_object': T, 'parser_objects': len(entries), 'byte_images_compared': len(images), 'object_bytes': images[0]['bytes'] if images else 0,
                    'cross_thread_result_comparisons': ncmp, 'sanitizer': 'clang++ -fsanitize=thread (parse, context-free of shared writes; write_diag_str running concurrently)',
                    'samples': [{'grammar': e.gid, 'thread_trace_ids': [t['id'] for t in e.traces[:3]]} for e in entries[:2]], 'exhaustive': False}
    out.assumptions = ['dynamic race detection sees the schedules that occurred; the interleaving argument is the specification\'s (Concurrent.tla), its premise (no write to the object or to library globals during a call) is what is observed',
                       'byte image of the parser object compared before and after all calls of all threads', 'each thread\'s trace is validated against the sequential Driver.tla independently (thread-local logs, no cross-thread ordering assumed)']
    return out


# ======================================================================================= C19
def helpers_through_parser(work):
    """rules whose functors are the documented helper objects: the parse result must be the documented pick"""
    exe = os.path.join(work, 'helpers_parse')
    r = subprocess.run(['g++', '-std=c++17', '-I' + os.path.join(vlib.REPO, 'include'), os.path.join(vlib.HARNESS, 'helpers_parse.cpp'), '-o', exe], capture_output=True, text=True, timeout=900)
    if r.returncode != 0:
        return [{'summary': {'class': 'a grammar using the documented helper functors does not compile', 'compiler_says': r.stderr[:500]}, 'kind': 'helpers'}]
    rr = subprocess.run(['bash', '-c', 'ulimit -s unlimited; exec ' + exe], capture_output=True, text=True, timeout=300)
    bad = []
    for ln in rr.stdout.splitlines():
        p = ln.split()
        if p and p[0] == 'HP' and p[-1] != p[-2]:
            bad.append({'summary': {'class': 'helper functor in a rule: the parse result is not the documented pick', 'helper': ' '.join(p[1:-2]), 'expected': p[-2], 'got': p[-1]}, 'kind': 'helpers'})
    if 'HP' not in rr.stdout:
        bad.append({'summary': {'class': 'helper-functor parser program died', 'exit': rr.returncode}, 'kind': 'helpers'})
    return bad


def check_C19(tier, seed):
    import gen_helpers
    out = Outcome()
    work = vlib.scratch('C19')
    r = vlib.run_tlc('Helpers', os.path.join(vlib.SPEC, 'Helpers.cfg'), {}, 'C19_helpers', workers=4, timeout=900)
    if r.errors and any('TemplateMatchesDoc' in e for e in r.errors):
        raise Infra('Helpers.tla: template arithmetic and documented positions disagree in the specification itself: %s' % r.errors[:2])
    if r.exit != 0 or r.errors:
        raise Infra('Helpers.tla failed: %s\n%s' % (r.errors[:3], r.out[-1500:]))
    cases = sorted(r.lines.get('HCASE', []), key=lambda c: (c['h'], c['n'], c['i'], c['j']))
    if len(cases) < 500:
        raise Infra('TLC printed only %d helper cases' % len(cases))
    parts = [cases[k::8] for k in range(8)]
    jobs = []
    total = 0
    for k, part in enumerate(parts):
        src, n = gen_helpers.tu(part)
        total += n
        sp = os.path.join(work, 'helpers%d.cpp' % k)
        with open(sp, 'w') as f:
            f.write(src)
        jobs.append((sp, lambda sp=sp: subprocess.run(['g++', '-std=c++17', '-O0', '-I' + os.path.join(vlib.REPO, 'include'), '-I' + vlib.HARNESS, sp, '-o', sp[:-4]], capture_output=True, text=True, timeout=1500)))
    rs = vlib.run_parallel([j[1] for j in jobs])
    nchecks = 0
    for (sp, _), cr in zip(jobs, rs):
        if cr.returncode != 0:
            import re as _re
            m = _re.findall(r'cid = "([^"]+)"', open(sp).read())
            out.violations.append({'summary': {'class': 'a helper functor instantiation does not compile', 'compiler_says': cr.stderr[:700]}, 'kind': 'helpers'})
            continue
        rr = subprocess.run([sp[:-4]], capture_output=True, text=True, timeout=300)
        for ln in rr.stdout.splitlines():
            p = ln.split(' ', 2)
            if p[0] == 'HFAIL':
                out.violations.append({'summary': {'class': 'helper functor: ' + p[2], 'case(helper_arity_positions_category)': p[1]}, 'kind': 'helpers'})
            elif p[0] == 'HDONE':
                nchecks += int(ln.split()[2])
        if 'HDONE' not in rr.stdout:
            out.violations.append({'summary': {'class': 'helper functor test program died', 'exit': rr.returncode}, 'kind': 'helpers'})
    hp = helpers_through_parser(work)
    out.violations += hp
    out.violations = out.violations[:12]
    out.coverage = {'states': int(r.distinct), 'transitions': int(max(r.generated, 1)), 'traces_validated_against_impl': 0,
                    'through_the_parser': 'harness/helpers_parse.cpp: _e1.._e9 on a 9-symbol rule, construct<W,1..4>, push_back<1,3>, emplace_back<3,1>, create, val',
                    'cases_enumerated_by_TLC': len(r.lines.get('HCASE', [])), 'cases_replayed': len(cases), 'instantiations(cases x value categories)': total, 'assertions_evaluated': nchecks,
                    'value_categories': ['lvalue', 'rvalue', 'move-only types'], 'arity': '1..9, every valid position / ordered pair',
                    'samples': cases[:3], 'exhaustive': True}
    out.assumptions = ['the TLA+ part is a small pure model (Helpers.tla): its enumeration is the test generator and it checks the template index arithmetic against the documented positions',
                       'copies / moves / modifications are observed through tagged argument types (harness/helpers_rt.hpp); a pure read that leaves no trace is not observable']
    return out


# ======================================================================================= replay
def replay(pid, path):
    v = json.load(open(path))
    out = Outcome()
    if v.get('kind') == 'rx':
        import rx as rxl
        recs, crashed, work = rxl.run_rx([('p0', list(v['pattern']), [])], 'replay')
        items, ref, model, static, st, tr, runs = rx_items_check(recs, 'replaytlc')
        probs, classes, st2, tr2 = syntax_check(recs, 'replaysyn')
        print('library accepts:', recs[0] and recs[0]['valid'], ' ref mismatches:', len(ref.get('p0', [])), ' model mismatches:', len(model.get('p0', [])), ' syntax:', [d['why'] for d in probs])
        if crashed or ref or model or static or probs:
            out.violations.append(v)
        return out
    if v.get('kind') == 'rxexpr':
        # the compile-time regex::expr objects live in harness/rxexpr.cpp: the section is re-run as a whole
        o2 = Outcome()
        rxexpr_language_section(o2, 'quick', random.Random(1))
        print('regex::expr section: %d deviation(s)' % len(o2.violations))
        if o2.violations:
            out.violations.append(v)
        return out
    if v.get('kind') == 'wf':
        print('re-run ./check C17 (regenerates the well-formedness translation units)')
        out.violations.append(v)
        return out
    if v.get('kind') == 'helpers':
        print('re-run ./check C19 (regenerates the translation units from the TLC cases)')
        out.violations.append(v)
        return out
    if v.get('kind') == 'threads':
        print('thread-level witnesses depend on the schedule: re-run ./check C15')
        out.violations.append(v)
        return out
    if v.get('kind') == 'moveonly':
        print('re-run ./check C14 (compiles harness/moveonly.cpp against the working tree)')
        out.violations.append(v)
        return out
    if v.get('kind') == 'containers':
        import containers
        cprobs, cstats, crun = containers.run('replaycont')
        print('container deviations:', json.dumps(cprobs[:3])[:800])
        if cprobs:
            out.violations.append(v)
        return out
    if v.get('kind') == 'caps':
        print('capacity witnesses are configurations of the check itself: re-run ./check C12')
        out.violations.append(v)
        return out
    if v.get('kind') == 'ct':
        print('C07 witnesses are translation units: re-run ./check C07 (source kept at %s)' % v.get('source'))
        out.violations.append(v)
        return out
    if v.get('kind') == 'lx':
        import lx as lxl
        ts = [tuple(t) for t in v['terms']]
        recs, crashed, work = lxl.run_lx([('l0', ts, [])], 'replay')
        items, ref, model, static, st, tr, runs = lx_items_check(recs, 'replaytlc')
        print('reference mismatches:', ref.get('l0', [])[:2], ' model mismatches:', model.get('l0', [])[:2], ' static:', static)
        if crashed or ref or model or static:
            out.violations.append(v)
        return out
    if v.get('kind') == 'diag':
        gd = v['grammar']
        g = gram.Grammar(v['gname'], gd['nts'], gd['ts'], gd['root'], [tuple(r) for r in gd['rules']], gd['tprec'], gd['tassoc'])
        e = pipeline.gen_entry(g) if v['mode'] == 'gen' else pipeline.host_entry(g, int(v['mode'][4:]))
        live, problems, sums, runs, st, tr = run_diagcheck([e], 'replay')
        print('diagnostic problems:', json.dumps(list(problems.values()))[:600])
        if problems:
            out.violations.append(v)
        return out
    if v.get('kind') == 'parser':
        gd = v['grammar']
        g = gram.Grammar(v['gname'], gd['nts'], gd['ts'], gd['root'], [tuple(r) for r in gd['rules']], gd['tprec'], gd['tassoc'])
        if v.get('clex'):
            e = pipeline.clex_entry(g)
        elif v.get('lexterms'):
            e = pipeline.lex_entry(v['gname'], [tuple(t) for t in v['lexterms']], v.get('lexshape', 'list'))
        elif v['mode'] == 'gen':
            e = pipeline.gen_entry(g, dflt=v.get('dflt', ()), ctx=v.get('ctxr', ()), postprec=v.get('postprec', ()), defines=v.get('defines', ()), noval=v.get('noval', ()), nvterms=v.get('nvterms', ()), tkinds={int(k): x for k, x in (v.get('tkinds') or {}).items()}, alt_nts=v.get('alt_nts', ()))
        else:
            e = pipeline.host_entry(g, int(v['mode'][4:]))
        e.jobs = [('%s:replay' % e.gid, int(v.get('buf', 0)), int(v.get('stream', 0)), int(v.get('verbose', 1)), int(v['ws']), int(v['nl']), list(v['bytes']), int(v.get('ctx', 0)))]
        res, work = prun.run([e], 'replay', do_product=True)
        rj = res.rejects.get(e.gid, [])
        verd, _ = prun.spec_verdicts([e], [(e.gid, tuple(v['bytes']), bool(v['ws']), bool(v['nl']))], 'replayv')
        sv = list(verd.values())[0]
        t = e.traces[0] if e.traces else None
        print('real: ok=%s   spec: %s   trace rejected: %s' % (t and t['ok'], sv['status'], [r['why'] for r in rj][:2]))
        if rj or (t and (sv['status'] == 'acc') != t['ok']):
            out.violations.append(v)
    return out
