"""The grammar pipeline shared by the parser-level properties:
   grammars -> (host descriptors | generated TUs) -> real dumps + real traces -> TLC (design / product / traces)."""
import collections, os, re, sys, json, subprocess, time, itertools, random
import vlib, gram, gen_tu, traces as tracelib
from vlib import Infra

HOSTS = {0: 'host0', 1: 'host1', 2: 'host2'}


class Entry:
    """One grammar as presented to the real library: either through a host TU or through its own generated TU."""

    def __init__(self, gid, g, mode, tla, desc=None):
        self.gid, self.g, self.mode, self.tla, self.desc = gid, g, mode, tla, desc
        self.jobs = []          # (jobid, buf, stream, verbose, ws, nl, bytes)
        self.dump = None
        self.diag = None
        self.diag_threw = None
        self.traces = []
        self.construct_threw = None
        self.crashed = None


_shapes = {}


def host_bins():
    specs = [(HOSTS[v], 'host.cpp', ('-DHOST_VARIANT=%d' % v,)) for v in HOSTS]
    bins = vlib.build_many(specs)
    for v in HOSTS:
        if v not in _shapes:
            _shapes[v] = gram.host_shapes(bins[HOSTS[v]])
    return bins


def host_entry(g, variant, gid=None):
    host_bins()
    gid = gid or ('%s@h%d' % (g.name, variant))
    hg = gram.HostGrammar(g, *_shapes[variant], gid=gid)
    return Entry(gid, g, 'host%d' % variant, hg.tla_json(), hg.desc_text())


def gen_entry(g, gid=None, dflt=(), limits=None, ctx=(), postprec=(), defines=(), noval=(), nvterms=(), tkinds=None, alt_nts=(), ctxref=False, reattach=False):
    gid = gid or ('%s@gen' % g.name)
    e = Entry(gid, g, 'gen', gen_tu.tla_json(g, gid, dflt, ctx, noval, nvterms, tkinds))
    e.tkinds = dict(tkinds or {})
    e.alt_nts = tuple(alt_nts)
    e.noval = tuple(noval)
    e.nvterms = tuple(nvterms)
    e.dflt = tuple(dflt)
    e.ctx = tuple(ctx)
    e.ctxref = ctxref
    e.reattach = reattach
    e.postprec = tuple(postprec)
    e.defines = tuple(defines)
    e.limits = limits
    if limits:
        e.tla['deflimits'] = False
    return e


class LexGrammar:
    """stand-in for gram.Grammar for token-list grammars over a term set (C04)"""

    def __init__(self, name, terms, shape='list'):
        self.name, self.terms = name, terms
        self.nts, self.ts, self.root = ['L'], [], 'L'
        self.rules = [('L', [], 0)] + [('L', ['L'] + ['error' if k == len(terms) + 1 else 't%d' % k for k in rs], 0) for rs in gen_tu.lex_rules(len(terms), shape)]
        self.tprec, self.tassoc, self.tags = {}, {}, ()
        self.shape = shape

    def has_error(self):
        return self.shape in ('errlist', 'errstmt')


def clex_entry(g, gid=None):
    gid = gid or ('%s@clex' % g.name)
    e = Entry(gid, g, 'gen', gen_tu.clex_tla_json(g, gid))
    e.clex = True
    return e


def unique_term_names(terms):
    """ctpg resolves the symbols of a rule by their ID; checks that read names back from diagnostics text (C11) or from
    messages need the display names to be unique as well."""
    n = gen_tu.lex_names(terms)
    return len(set(n)) == len(n)


def unique_term_ids(terms):
    """the ids ctpg resolves rule symbols by: the character, the string, 'r_' + pattern (a custom NAME does not change the id)"""
    ids = gen_tu.lex_names([t[:2] for t in terms])
    return len(set(ids)) == len(ids)


def lex_entry(name, terms, shape='list'):
    if not unique_term_ids(terms):
        raise ValueError('terms with equal ids alias each other in ctpg rules: ' + repr(gen_tu.lex_names(terms)))
    gid = '%s@lex' % name
    e = Entry(gid, LexGrammar(name, terms, shape), 'gen', gen_tu.lex_tla_json(gid, terms, shape))
    e.lexterms = terms
    e.lexshape = shape
    return e


def add_jobs(entry, inputs, buf=0, stream=0, verbose=True, ws=True, nl=True, tag='', ctx=0):
    for b in inputs:
        entry.jobs.append(('%s:%s%d' % (entry.gid, tag, len(entry.jobs)), buf, stream, int(verbose), int(ws), int(nl), list(b), ctx))


def run_harness(entries, workname, env=None):
    """Builds what is needed, runs every entry's jobs through the real library, fills dump/diag/traces."""
    work = vlib.scratch(workname)
    dup = [g for g, n in collections.Counter(e.gid for e in entries).items() if n > 1]
    if dup:
        raise vlib.Infra('duplicate grammar ids in one run (traces, dumps and verdicts are keyed by id): %s' % dup[:5])
    bins = host_bins()
    gens = [e for e in entries if e.mode == 'gen']
    specs = []
    for e in gens:
        src = os.path.join(work, e.gid.replace('@', '_').replace('/', '_') + '.cpp')
        with open(src, 'w') as f:
            f.write(gen_tu.clex_tu(e.g, e.gid) if getattr(e, 'clex', False) else gen_tu.lex_tu(e.gid, e.lexterms, getattr(e, 'lexshape', 'list')) if hasattr(e, 'lexterms') else gen_tu.tu_source(e.g, e.gid, getattr(e, 'dflt', ()), getattr(e, 'limits', None), getattr(e, 'ctx', ()), getattr(e, 'postprec', ()), getattr(e, 'defines', ()), getattr(e, 'noval', ()), getattr(e, 'nvterms', ()), getattr(e, 'tkinds', None), getattr(e, 'alt_nts', ()), getattr(e, 'ctxref', False), getattr(e, 'reattach', False)))
        specs.append(('gen_' + e.gid.replace('@', '_'), src, ()))
    gbins = vlib.build_many(specs) if specs else {}
    runs = []
    for v, hname in HOSTS.items():
        es = [e for e in entries if e.mode == 'host%d' % v]
        if not es:
            continue
        # chunk host entries so that several processes run in parallel
        nchunks = max(1, min(vlib.NCPU, len(es) // 20 + 1))
        for c in range(nchunks):
            part = es[c::nchunks]
            base = os.path.join(work, '%s_%d' % (hname, c))
            with open(base + '.desc', 'w') as f:
                for e in part:
                    f.write(e.desc)
            _write_jobs(base + '.jobs', part)
            runs.append(([bins[hname], base + '.desc', base + '.jobs', base + '.out'], base + '.out', part))
    for e in gens:
        base = os.path.join(work, 'gen_' + e.gid.replace('@', '_'))
        _write_jobs(base + '.jobs', [e])
        runs.append(([gbins['gen_' + e.gid.replace('@', '_')], base + '.jobs', base + '.out'], base + '.out', [e]))

    henv = dict(os.environ)
    henv.update(env or {})

    def go(cmd):
        def f():
            r = subprocess.run(cmd, capture_output=True, text=True, timeout=1800, env=henv)
            return r
        return f
    results = vlib.run_parallel([go(cmd) for cmd, _, _ in runs])
    by_gid = {e.gid: e for e in entries}
    for (cmd, outp, part), r in zip(runs, results):
        if r.returncode != 0 and not os.path.exists(outp):
            raise Infra('harness run failed: %s\n%s' % (' '.join(cmd), r.stderr[-2000:]))
        for rec in vlib.read_ndjson_lenient(outp):
            if 'dump' in rec:
                by_gid[rec['dump']['g']].dump = rec['dump']
            elif 'diag' in rec:
                by_gid[rec['g']].diag = rec['diag']
            elif 'diag_threw' in rec:
                by_gid[rec['g']].diag_threw = rec['diag_threw']
            elif 'construct_threw' in rec:
                by_gid[rec['g']].construct_threw = rec['construct_threw']
            else:
                by_gid[rec['g']].traces.append(rec)
        if r.returncode != 0:
            # the traced implementation died (signal / abort / watchdog) while serving ONE entry: that entry carries the exit
            # code; the entries behind it in the same process never ran and are served again by a fresh process
            rest = part
            rc = r.returncode
            rounds = 0
            while rc != 0 and rounds < 50:
                rounds += 1
                inc = [i for i, e in enumerate(rest) if len(e.traces) < len(e.jobs) or e.dump is None]
                if not inc:
                    break
                rest[inc[0]].crashed = rc
                m = re.search(r'VERIF-TIMEOUT job=(\S+)', r.stderr or '')
                if m:
                    rest[inc[0]].crash_job = m.group(1)
                rest = [e for e in rest[inc[0] + 1:] if len(e.traces) < len(e.jobs) or e.dump is None]
                if not rest or len(cmd) != 4:          # (generated TUs serve a single entry)
                    break
                base2 = cmd[1][:-5] + '_r%d' % rounds
                with open(base2 + '.desc', 'w') as f:
                    for e in rest:
                        f.write(e.desc)
                        e.traces = []
                _write_jobs(base2 + '.jobs', rest)
                r = subprocess.run([cmd[0], base2 + '.desc', base2 + '.jobs', base2 + '.out'], capture_output=True, text=True, timeout=1800, env=henv)
                for rec in vlib.read_ndjson_lenient(base2 + '.out'):
                    if 'dump' in rec:
                        by_gid[rec['dump']['g']].dump = rec['dump']
                    elif 'diag' in rec:
                        by_gid[rec['g']].diag = rec['diag']
                    elif 'diag_threw' in rec:
                        by_gid[rec['g']].diag_threw = rec['diag_threw']
                    elif 'construct_threw' in rec:
                        by_gid[rec['g']].construct_threw = rec['construct_threw']
                    else:
                        by_gid[rec['g']].traces.append(rec)
                rc = r.returncode
    return work


def _write_jobs(path, entries):
    with open(path, 'w') as f:
        for e in entries:
            for job in e.jobs:
                (jid, buf, stream, v, ws, nl, b) = job[:7]
                f.write('%s %d %d %d %d %d %s %d\n' % (jid, buf, stream, v, ws, nl, gram.hexbytes(b), job[7] if len(job) > 7 else 0))


def tlc_inputs(entries, work, name, with_traces=True, keep_lex=False):
    """Writes grammars/dumps/traces ndjson for one TLC run over `entries` (all must have dumps)."""
    gpath = os.path.join(work, name + '.grammars.ndjson')
    dpath = os.path.join(work, name + '.dumps.ndjson')
    tpath = os.path.join(work, name + '.traces.ndjson')
    vlib.write_ndjson(gpath, [e.tla for e in entries])
    vlib.write_ndjson(dpath, [e.dump for e in entries])
    ntr = 0
    if with_traces:
        with open(tpath, 'w') as f:
            for i, e in enumerate(entries):
                for t in e.traces:
                    f.write(json.dumps(tracelib.convert(t, i + 1, keep_lex)) + '\n')
                    ntr += 1
    env = {'VERIF_GRAMMARS': gpath, 'VERIF_DUMPS': dpath}
    if with_traces:
        env['VERIF_TRACES'] = tpath
    return env, ntr


def chunks(lst, n):
    n = max(1, n)
    k = (len(lst) + n - 1) // n
    return [lst[i:i + k] for i in range(0, len(lst), k)] if lst else []


def write_cfg(work, name, spec, invariants, constants=None, view=None, deadlock=False, properties=None):
    p = os.path.join(work, name + '.cfg')
    with open(p, 'w') as f:
        f.write('SPECIFICATION %s\n' % spec)
        if constants:
            f.write('CONSTANTS\n')
            for k, v in constants.items():
                f.write('  %s = %s\n' % (k, v))
        f.write('INVARIANTS\n')
        for i in invariants:
            f.write('  %s\n' % i)
        if properties:
            f.write('PROPERTIES\n')
            for i in properties:
                f.write('  %s\n' % i)
        if view:
            f.write('VIEW %s\n' % view)
        f.write('CHECK_DEADLOCK %s\n' % ('TRUE' if deadlock else 'FALSE'))
    return p


def tla_set(xs):
    return '{' + ', '.join(str(x) for x in xs) + '}'


def run_host_binary(binpath, entries, workname, env=None, timeout=1800):
    """Runs the host entries' jobs (as they are) through another build of the host TU (sanitizer / cstring variants).
    Returns (trace records, returncode, stderr tail).  Does not touch the entries."""
    work = vlib.scratch(workname)
    base = os.path.join(work, 'x')
    with open(base + '.desc', 'w') as f:
        for e in entries:
            f.write(e.desc)
    _write_jobs(base + '.jobs', entries)
    e2 = dict(os.environ)
    e2.update(env or {})
    r = subprocess.run([binpath, base + '.desc', base + '.jobs', base + '.out'], capture_output=True, text=True, timeout=timeout, env=e2)
    recs = [x for x in vlib.read_ndjson_lenient(base + '.out') if 'id' in x]
    return recs, r.returncode, (r.stderr or '')[-3000:]
