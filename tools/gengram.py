"""Small-scope enumeration and seeded random generation of grammars (generators only - never oracles)."""
import itertools, random
from gram import Grammar


def enum_small(nts=('S', 'A'), ts=('a', 'b'), max_rules=3, max_rhs=2, allow_error=False):
    """All grammars (up to rule order) with <= max_rules rules over the given symbols, rhs length <= max_rhs,
    root S having at least one rule.  Deterministic order."""
    syms = list(nts) + list(ts) + (['error'] if allow_error else [])
    rhss = []
    for n in range(max_rhs + 1):
        for tup in itertools.product(syms, repeat=n):
            if allow_error and sum(1 for x in tup if x == 'error') > 1:
                continue
            rhss.append(list(tup))
    allrules = [(l, r) for l in nts for r in rhss if not (len(r) == 1 and r[0] == l)]
    for k in range(1, max_rules + 1):
        for combo in itertools.combinations(range(len(allrules)), k):
            rules = [allrules[i] for i in combo]
            if not any(l == nts[0] for l, _ in rules):
                continue
            used_nt = {nts[0]}
            # keep only grammars in which every nonterminal with rules is reachable from the root (others are
            # covered by the catalogue's unused-symbol entries)
            changed = True
            while changed:
                changed = False
                for l, r in rules:
                    if l in used_nt:
                        for x in r:
                            if x in nts and x not in used_nt:
                                used_nt.add(x); changed = True
            if any(l not in used_nt for l, _ in rules):
                continue
            haverules = {l for l, _ in rules}
            if any(x in nts and x not in haverules for _, r in rules for x in r):
                continue      # a nonterminal without rules on a right side: degenerate (covered once by the catalogue)
            lhs = [n for n in nts if any(l == n for l, _ in rules) or n in used_nt]
            yield [(l, r, 0) for l, r in rules], lhs


def small_grammars(limit=None, stride=1, **kw):
    nts = kw.get('nts', ('S', 'A'))
    ts = kw.get('ts', ('a', 'b'))
    out = []
    for i, (rules, lhs) in enumerate(enum_small(**kw)):
        if i % stride:
            continue
        name = 'e%d' % i
        # order nonterminals: root first; rules grouped as enumerated (NOT grouped by lhs on purpose)
        g = Grammar(name, list(nts), list(ts), nts[0], rules)
        out.append(g)
        if limit and len(out) >= limit:
            break
    return out


def random_grammar(rng, name, n_nt=3, n_t=3, n_rules=(3, 7), max_rhs=3, p_empty=0.15, error=False, prec=False):
    nts = ['S', 'A', 'B', 'C'][:n_nt]
    ts = ['a', 'b', 'c', 'd'][:n_t]
    k = rng.randint(*n_rules)
    rules = []
    for i in range(k):
        l = nts[0] if i == 0 else rng.choice(nts)
        if rng.random() < p_empty:
            r = []
        else:
            n = rng.randint(1, max_rhs)
            r = [rng.choice(nts + ts + ts) for _ in range(n)]
            if error and rng.random() < 0.3:
                r[rng.randrange(len(r))] = 'error'
        if len(r) == 1 and r[0] == l:
            r = [rng.choice(ts)]
        rules.append((l, r, rng.choice([0, 0, 0, 1, 2, 3, -1]) if prec else 0))
    tprec = {t: rng.choice([0, 1, 2, 2, -1]) for t in ts} if prec else {}
    tassoc = {t: rng.choice([0, 1, 2]) for t in ts} if prec else {}
    return Grammar(name, nts, ts, 'S', rules, tprec, tassoc)


def sentences(g, rng, count, max_len=40, max_steps=400):
    """Random sentences by leftmost expansion with a budget (generator for long accepted inputs)."""
    byl = {}
    for (l, r, _) in g.rules:
        byl.setdefault(l, []).append(r)
    # minimal yield length per nonterminal to steer termination
    INF = 10 ** 9
    mn = {n: INF for n in g.nts}
    changed = True
    while changed:
        changed = False
        for (l, r, _) in g.rules:
            if 'error' in r:
                continue
            tot = 0
            for x in r:
                tot += mn[x] if x in mn else 1
            if tot < mn[l]:
                mn[l] = tot; changed = True
    if mn.get(g.root, INF) >= INF:
        return []
    # derivation height: the forced choice below must strictly decrease it (termination also for unit cycles S -> A, A -> S | a)
    ht = {n: INF for n in g.nts}
    changed = True
    while changed:
        changed = False
        for (l, r, _) in g.rules:
            if 'error' in r or any(x in ht and ht[x] >= INF for x in r):
                continue
            h = 1 + max([ht[x] for x in r if x in ht] + [0])
            if h < ht[l]:
                ht[l] = h; changed = True

    def rule_ht(r):
        return 1 + max([ht[x] for x in r if x in ht] + [0])
    res = []
    for _ in range(count * 4):
        form = [g.root]
        out = []
        steps = 0
        ok = True
        budget = rng.randint(2, max_len)
        while form:
            x = form.pop(0)
            if x not in mn:
                out.append(x)
                continue
            steps += 1
            alts = [r for r in byl.get(x, []) if 'error' not in r and all((y not in mn) or mn[y] < INF for y in r)]
            if not alts:
                ok = False; break
            if steps > max_steps * 3:
                ok = False; break
            if steps > max_steps or len(out) + len(form) > budget:
                alts = sorted(alts, key=lambda r: (rule_ht(r), sum(mn[y] if y in mn else 1 for y in r)))[:1]
            r = rng.choice(alts)
            form = list(r) + form
            if len(out) > max_len * 2:
                ok = False; break
        if ok:
            res.append([ord(c) for c in out])
        if len(res) >= count:
            break
    return res
