#!/usr/bin/env python3
"""TLC silently stops caching a constant definition when a bound identifier or operator parameter anywhere in its
definition has the name of a state variable.  This lint fails if any VARIABLE name of any module in spec/ occurs as an
identifier (not a record field) in a library module (modules without VARIABLES)."""
import re, sys, glob, os
spec = os.path.join(os.path.dirname(os.path.abspath(__file__)), '..', 'spec')
mods = {os.path.basename(p)[:-4]: open(p).read() for p in glob.glob(os.path.join(spec, '*.tla'))}
def strip_comments(s):
    s = re.sub(r'\(\*.*?\*\)', ' ', s, flags=re.S)
    return re.sub(r'\\\*.*', ' ', s)
varnames = set()
libs = {}
for m, s in mods.items():
    s2 = strip_comments(s)
    vs = re.findall(r'VARIABLES?\s+((?:\w+\s*,\s*)*\w+)', s2)
    if vs:
        for v in vs:
            varnames |= set(x.strip() for x in v.split(','))
    else:
        libs[m] = s2
bad = 0
for m, s in libs.items():
    s = re.sub(r'"[^"]*"', '""', s)
    for v in sorted(varnames):
        for mt in re.finditer(r'(?<![\w.!])' + re.escape(v) + r'(?!\w|\s*\|->)', s):
            ln = s.count('\n', 0, mt.start()) + 1
            print('%s.tla:%d: identifier %r is also a state variable name' % (m, ln, v)); bad += 1
sys.exit(1 if bad else 0)
