"""Regex layer: pattern generation, the run-time rx driver, conversion to RxCheck items, interpretation."""
import os, json, subprocess, itertools, random, collections
import vlib
from vlib import Infra

ATOMS = ['a', 'b', '[ab]', '[^a]', '.']
UNARY = ['*', '+', '?', '{0}', '{1}', '{2}', '{3}']


def enum_asts(size, atoms=ATOMS, unary=UNARY):
    """all ASTs with exactly `size` nodes: ('atom', text) | ('un', op, a) | ('cat', a, b) | ('alt', a, b)"""
    if size == 1:
        return [('atom', a) for a in atoms]
    out = []
    for a in enum_asts(size - 1, atoms, unary):
        for u in unary:
            out.append(('un', u, a))
    for k in range(1, size - 1):
        for a in enum_asts(k, atoms, unary):
            for b in enum_asts(size - 1 - k, atoms, unary):
                out.append(('cat', a, b))
                out.append(('alt', a, b))
    return out


def render(ast, ctx='top'):
    k = ast[0]
    if k == 'atom':
        return ast[1]
    if k == 'un':
        a = ast[2]
        inner = render(a, 'un')
        if a[0] != 'atom':
            inner = '(' + render(a, 'top') + ')'
        return inner + ast[1]
    if k == 'cat':
        l = render(ast[1], 'cat')
        r = render(ast[2], 'cat')
        if ast[1][0] == 'alt':
            l = '(' + render(ast[1], 'top') + ')'
        if ast[2][0] in ('alt', 'cat'):
            r = '(' + render(ast[2], 'top') + ')'
        return l + r
    if k == 'alt':
        l = render(ast[1], 'alt')
        r = render(ast[2], 'alt')
        if ast[1][0] == 'alt':
            l = '(' + l + ')'
        if ast[2][0] == 'alt':
            r = '(' + r + ')'
        return l + '|' + r
    raise ValueError(ast)


def random_pattern(rng, depth=4):
    atoms = ['a', 'b', 'c', 'x', '0', '7', '[ab]', '[a-c]', '[^a]', '[^a-y]', '.', '\\\\.', '\\\\x41', '\\\\x7', '[\\\\x80-\\\\xff]', '[_a-zA-Z]', '[0-9]', '\\\\|', '\\\\*', ' ']

    def go(d):
        if d == 0 or rng.random() < 0.25:
            return ('atom', rng.choice(atoms).replace('\\\\', '\\'))
        r = rng.random()
        if r < 0.35:
            return ('un', rng.choice(UNARY + ['{4}']), go(d - 1))
        if r < 0.75:
            return ('cat', go(d - 1), go(d - 1))
        return ('alt', go(d - 1), go(d - 1))
    return render(go(depth))


def repo_patterns():
    """patterns used by the repository's own tests and examples (literal strings assigned to *pattern* arrays)"""
    import re, glob
    pats = set()
    for f in glob.glob(os.path.join(vlib.REPO, 'tests', '*.cpp')) + glob.glob(os.path.join(vlib.REPO, 'examples', '*.cpp')):
        try:
            src = open(f, errors='replace').read()
        except OSError:
            continue
        for m in re.finditer(r'constexpr\s+char\s+\w+\[\]\s*=\s*"((?:[^"\\]|\\.)*)"', src):
            s = m.group(1)
            try:
                pats.add(bytes(s, 'latin-1').decode('unicode_escape'))
            except Exception:
                pass
    return sorted(pats)


def primary_forms(tier='quick'):
    """systematic coverage of character decoding: every single-character form and set/range forms around the
    interesting byte values (control, printable limits, specials, the signed/unsigned boundary 0x7f/0x80, 0xff)"""
    out = []
    specials = set('*+?|(){}[]\\.^-')
    for c in range(0x20, 0x7f):
        ch = chr(c)
        if ch not in specials and not ch.isdigit():
            out.append(ch)
        out.append('\\' + ch)
        out.append('[' + ('\\' + ch if ch in ']\\' else ch) + ']')
        if ch not in '^]\\':
            out.append('[^' + ch + ']')
    for v in range(256):
        out.append('\\x%02x' % v)
        out.append('\\x%02X' % v)
        out.append('[\\x%02x]' % v)
        if v < 16:
            out.append('\\x%x' % v)
            out.append('\\x%xg' % v)
            # one-digit escapes INSIDE a set, followed by a non-hex character, by ']' , by a range dash, by another escape
            out.append('[\\x%xz]' % v)
            out.append('[q\\x%x]' % v)
            if v % 3 == 0:
                out.append('[^\\x%xz]' % v)
                out.append('[\\x%x-z]' % v)
                out.append('[\\x%x\\x%x]' % (v, 15 - v))
                out.append('x[\\x%x ]y' % v)
    edge = [0x00, 0x01, 0x1f, 0x20, 0x2d, 0x2f, 0x30, 0x39, 0x41, 0x5a, 0x5b, 0x5d, 0x61, 0x7a, 0x7e, 0x7f, 0x80, 0x81, 0xc3, 0xfe, 0xff]
    for a in edge:
        for b in edge:
            if a <= b:
                out.append('[\\x%02x-\\x%02x]' % (a, b))
                if tier != 'quick' or (a + b) % 3 == 0:
                    out.append('[^\\x%02x-\\x%02x]' % (a, b))
                    out.append('[a\\x%02x-\\x%02xz]' % (a, b))
    for a in 'a0A !~':
        for b in 'z9Z~':
            if a <= b:
                out.append('[%s-%s]' % (a, b))
                out.append('[%s-\\xff]' % a)
                out.append('[\\x00-%s]' % b)
    out += ['[a-zA-Z_0-9]', '[^a-zA-Z_0-9]', '[--Z-]', '[a-c-e]', '[]a]'.replace(']a', '\\]a'), '[a\\]]', '[[]', '[^^]', '[a^]', '[.]', '[*+?]', '.']
    return [x.replace('\\\\', '\\') for x in out]


def build_rx():
    return vlib.build_binary('rx', 'rx.cpp')


def run_rx(jobs, workname):
    """jobs: list of (id, pattern bytes, [strings bytes]) -> list of records (same order)"""
    binp = build_rx()
    work = vlib.scratch(workname)
    n = max(1, min(vlib.NCPU, len(jobs) // 200 + 1))
    parts = [jobs[i::n] for i in range(n)]
    cmds = []
    for i, part in enumerate(parts):
        jp = os.path.join(work, 'rx%d.jobs' % i)
        with open(jp, 'w') as f:
            for (pid, pat, strs) in part:
                f.write('P %s %s\n' % (pid, ''.join('%02x' % b for b in pat) or '-'))
                for s in strs:
                    f.write('S %s\n' % (''.join('%02x' % b for b in s) or '-'))
        cmds.append(([binp, jp, os.path.join(work, 'rx%d.out' % i)], os.path.join(work, 'rx%d.out' % i), part))

    def go(cmd):
        return lambda: subprocess.run(cmd, capture_output=True, text=True, timeout=1800)
    rs = vlib.run_parallel([go(c[0]) for c in cmds])
    recs = {}
    crashed = []
    for (cmd, outp, part), r in zip(cmds, rs):
        got = vlib.read_ndjson_lenient(outp)
        for rec in got:
            recs[rec['id']] = rec
        if r.returncode != 0:
            missing = [p for p in part if p[0] not in recs]
            crashed.append((r.returncode, missing[0] if missing else None))
            # rerun the rest one by one so that one crash does not hide the others
            for p in missing[1:]:
                sub = run_rx_single(binp, work, p)
                if sub is not None:
                    recs[p[0]] = sub
    return [recs.get(j[0]) for j in jobs], crashed, work


def run_rx_single(binp, work, p):
    jp = os.path.join(work, 'single.jobs')
    with open(jp, 'w') as f:
        f.write('P %s %s\n' % (p[0], ''.join('%02x' % b for b in p[1]) or '-'))
        for s in p[2]:
            f.write('S %s\n' % (''.join('%02x' % b for b in s) or '-'))
    op = os.path.join(work, 'single.out')
    r = subprocess.run([binp, jp, op], capture_output=True, text=True, timeout=600)
    got = vlib.read_ndjson_lenient(op)
    return got[0] if got else None


def to_item(rec):
    """rx record -> RxCheck item over the segment alphabet induced by the pattern's sets and the real rows"""
    cuts = {0, 256}
    for c in rec['calls']:
        if c['op'] == 'char':
            cuts |= {c['a'][0], c['a'][0] + 1}
        for lo, hi in c['ranges']:
            cuts |= {lo, hi + 1}
    for st in rec['dfa']:
        for lo, hi, to in st['tr']:
            cuts |= {lo, hi + 1}
    cuts = sorted(cuts)
    segs = [(cuts[i], cuts[i + 1] - 1) for i in range(len(cuts) - 1)]
    K = len(segs)

    def segset(ranges):
        return [i + 1 for i, (lo, hi) in enumerate(segs) if any(a <= lo and hi <= b for a, b in ranges)]
    calls = []
    for c in rec['calls']:
        a = c['a']
        z = {'start': 0, 'n': 0}
        sl = lambda i: {'start': a[i], 'n': a[i + 1]}
        if c['op'] == 'char':
            calls.append({'op': 'set', 'cs': segset([[a[0], a[0]]]), 'n': 0, 'a1': z, 'a2': z, 'ret': sl(1)})
        elif c['op'] == 'set':
            calls.append({'op': 'set', 'cs': segset(c['ranges']), 'n': 0, 'a1': z, 'a2': z, 'ret': sl(0)})
        elif c['op'] in ('star', 'plus', 'opt'):
            calls.append({'op': c['op'], 'cs': [], 'n': 0, 'a1': sl(0), 'a2': z, 'ret': sl(2)})
        elif c['op'] == 'rep':
            calls.append({'op': 'rep', 'cs': [], 'n': a[0], 'a1': sl(1), 'a2': z, 'ret': sl(3)})
        else:
            calls.append({'op': c['op'], 'cs': [], 'n': 0, 'a1': sl(0), 'a2': sl(2), 'ret': sl(4)})
    dfa = []
    for st in rec['dfa']:
        tr = [65535] * K
        for lo, hi, to in st['tr']:
            for i, (a, b) in enumerate(segs):
                if lo <= a and b <= hi:
                    tr[i] = to
        dfa.append({'en': bool(st['end']), 'un': bool(st['unr']), 'rec': st['rec'], 'tr': tr})
    return {'id': rec['id'], 'K': K, 'segs': [list(s) for s in segs], 'calls': calls, 'dfa': dfa, 'slice': rec['slice'],
            'size_pred': rec['size_pred'], 'size_used': rec['size_used'], 'size_api': rec.get('size_api', -2), 'giv': []}


def tla_sets(items):
    """JSON arrays become TLA+ sequences; Regex.tla wants `cs` as a set: keep sequences in JSON and let the spec
    convert would cost time per use - instead cs is stored as a sequence and RxCheck reads it through Range.  To keep
    Regex.tla independent of JSON, the conversion is done here by emitting records TLC turns into functions; sets are
    not expressible in JSON, so `cs` stays a sequence and Regex!Primary / PD receive {cs[i]} built once in Replay."""
    return items


def witness_bytes(item, w, rng=None):
    out = []
    for i, s in enumerate(w):
        lo, hi = item['segs'][s - 1]
        out.append(lo if (i % 2 == 0 or rng is None) else hi)
    return out
