"""Generates one translation unit per grammar (exact rules, any arity), sharing harness/rt.hpp with the host TU."""
import json
from gram import TB


def cchar(b):
    return "char(%d)" % (b if b < 128 else b - 256)


def tu_source(g, gid=None):
    """g: gram.Grammar.  Terms are typed char terms with the observing functor, every rule gets RuleF{index}."""
    gid = gid or g.name
    o = ['#include "rt.hpp"', 'using namespace ctpg;', 'using vh::Node;', 'namespace G {',
         'using TT = typed_term<char_term, vh::TermF>;']
    for i, n in enumerate(g.nts):
        o.append('nterm<Node> n%d("%s");' % (i, 'N%d' % i))
    for i, t in enumerate(g.ts):
        o.append('TT t%d(char_term(%s, %d, associativity(%d)), vh::TermF{%d});' % (
            i, cchar(ord(t)), g.tprec.get(t, 0), g.tassoc.get(t, 0), i))
    ntid = {n: i for i, n in enumerate(g.nts)}
    tid = {t: i for i, t in enumerate(g.ts)}
    rl = []
    for ri, (l, rhs, prec) in enumerate(g.rules):
        args = ', '.join('n%d' % ntid[x] if x in ntid else ('error' if x == 'error' else 't%d' % tid[x]) for x in rhs)
        r = 'n%d(%s)' % (ntid[l], args)
        if prec != 0:
            r = '(%s[%d])' % (r, prec)
        rl.append('        %s >= vh::RuleF{%d}' % (r, ri))
    o.append('auto make() { return new parser(n%d,' % ntid[g.root])
    o.append('    terms(%s),' % ', '.join('t%d' % i for i in range(len(g.ts))))
    o.append('    nterms(%s),' % ', '.join('n%d' % i for i in range(len(g.nts))))
    o.append('    rules(\n%s\n    )); }' % ',\n'.join(rl))
    o.append('}')
    o.append('int main(int argc, char** argv) { return vh::gen_main([] { return G::make(); }, "%s", argc, argv); }' % gid)
    return '\n'.join(o) + '\n'


def tla_json(g, gid=None):
    """Same JSON shape as gram.HostGrammar.tla_json, for an exact (generated TU) grammar."""
    gid = gid or g.name
    ntid = {n: i for i, n in enumerate(g.nts)}
    tid = {t: i for i, t in enumerate(g.ts)}
    nnt, nt = len(g.nts), len(g.ts)
    names_nt = ['N%d' % i for i in range(nnt)] + ['##']
    tn = [(t if 32 < ord(t) < 127 else '\\x%02X' % ord(t)) for t in g.ts] + ['<eof>', '<error_recovery_token>']

    def code(x):
        return ntid[x] if x in ntid else (TB + nt + 1 if x == 'error' else TB + tid[x])
    rules = [{'l': ntid[l], 'r': [code(x) for x in rhs], 'prec': prec} for (l, rhs, prec) in g.rules]

    def symname(c):
        return tn[c - TB] if c >= TB else names_nt[c]
    texts = [names_nt[r['l']] + ' <- ' + ' '.join(symname(c) for c in r['r']) for r in rules]
    texts.append('## <- ' + names_nt[ntid[g.root]])
    return {
        'id': gid, 'nnt': nnt, 'nt': nt, 'root': ntid[g.root], 'rules': rules, 'used': [1] * len(rules),
        'tprec': [g.tprec.get(t, 0) for t in g.ts], 'tassoc': [g.tassoc.get(t, 0) for t in g.ts],
        'tbytes': [ord(t) for t in g.ts], 'tnames': tn, 'ntnames': names_nt, 'ruletext': texts,
        'lex': 'chars', 'obsT': True, 'obsC': True, 'alpha': [ord(t) for t in g.ts],
        'uterms': list(range(nt)),
    }
