"""Generates one translation unit per grammar (exact rules, any arity), sharing harness/rt.hpp with the host TU."""
import json
from gram import TB


def cchar(b):
    return "char(%d)" % (b if b < 128 else b - 256)


def tu_source(g, gid=None, dflt=(), limits=None, ctx=(), postprec=(), defines=(), noval=(), nvterms=(), tkinds=None, alt_nts=(), ctxref=False, reattach=False):
    """g: gram.Grammar.  Terms are typed char terms with the observing functor, every rule gets RuleF{index}."""
    gid = gid or g.name
    o = ['#define %s' % d for d in defines] + ['#include "rt.hpp"', 'using namespace ctpg;', 'using vh::Node;', 'namespace G {',
         'using TT = typed_term<char_term, vh::TermF>;', 'using TN = typed_term<char_term, vh::TermFN>;      // value type no_type']
    for i, n in enumerate(g.nts):
        o.append('nterm<%s> n%d("%s");' % ('no_type' if i in noval else ('vh::Node2' if i in alt_nts else 'Node'), i, 'N%d' % i))      # noval: value-less; alt_nts: a type constructible from what the functors return
    for i, t in enumerate(g.ts):
        # declarations as a user writes them: default arguments are used whenever precedence / associativity are default
        pr, asc = g.tprec.get(t, 0), g.tassoc.get(t, 0)
        ct = 'char_term(%s)' % cchar(ord(t)) if (pr, asc) == (0, 0) else ('char_term(%s, %d)' % (cchar(ord(t)), pr) if asc == 0 else 'char_term(%s, %d, associativity(%d))' % (cchar(ord(t)), pr, asc))
        kind = (tkinds or {}).get(i, 'char')
        if kind != 'char' and i not in nvterms:
            # the same one-character term declared as another KIND of term, through that kind's constructor overloads
            # (precedence and associativity travel through different code for each)
            tail = '' if (pr, asc) == (0, 0) else (', %d' % pr if asc == 0 else ', %d, associativity(%d)' % (pr, asc))
            if kind == 'string':
                o.append('constexpr char d%d[] = {%s, 0};' % (i, cchar(ord(t))))
                o.append('auto t%d = typed_term(string_term(d%d%s), vh::TermF{%d});' % (i, i, tail, i))
            else:
                o.append('constexpr char d%d[] = "\\\\x%02x";' % (i, ord(t)))
                if kind == 'regexn':          # regex_term(name, precedence, associativity)
                    o.append('auto t%d = typed_term(regex_term<d%d>(%s%s), vh::TermF{%d});' % (i, i, json.dumps(tname_of(t)), tail, i))
                elif (pr, asc) == (0, 0):     # regex_term(associativity) with its default
                    o.append('auto t%d = typed_term(regex_term<d%d>(associativity::no_assoc), vh::TermF{%d});' % (i, i, i))
                elif pr == 0:                 # regex_term(associativity)
                    o.append('auto t%d = typed_term(regex_term<d%d>(associativity(%d)), vh::TermF{%d});' % (i, i, asc, i))
                else:                         # regex_term(precedence, associativity)
                    o.append('auto t%d = typed_term(regex_term<d%d>(%d, associativity(%d)), vh::TermF{%d});' % (i, i, pr, asc, i))
            continue
        o.append('TN t%d(%s, vh::TermFN{%d});' % (i, ct, i) if i in nvterms else 'TT t%d(%s, vh::TermF{%d});' % (i, ct, i))
    ntid = {n: i for i, n in enumerate(g.nts)}
    tid = {t: g.ts.index(t) for t in g.ts}      # (a name listed twice denotes its FIRST declaration)
    rl = []
    named = []
    for ri, (l, rhs, prec) in enumerate(g.rules):
        args = ', '.join('n%d' % ntid[x] if x in ntid else ('error' if x == 'error' else 't%d' % tid[x]) for x in rhs)
        r = 'n%d(%s)' % (ntid[l], args)
        post = prec != 0 and ri in postprec and ri not in dflt       # precedence attached after the functor: (rule >= f)[p]
        if prec != 0 and not post:
            r = '(%s[%d])' % (r, prec)
        nv = 'N' if ntid[l] in noval else ''
        if ri % 2 == 1 and ri not in dflt and not nv and ri not in ctx:
            # odd rules attach a NAMED functor object (an lvalue), as a user who keeps the functor in a variable does
            named.append('vh::RuleF f%d{%d};' % (ri, ri))
            r = '%s >= f%d' % (r, ri)
        elif reattach and ri % 2 == 0 and ri not in dflt and ri not in ctx and not nv and not (prec != 0 and not post):
            # a functor attached with >>= and then REPLACED through >= : the rule is a plain one (no context for the second functor)
            r = '(%s >>= vh::RuleFC{%d}) >= vh::RuleF{%d}' % (r, ri, ri)
        else:
            r = '%s' % r if ri in dflt else ('%s >>= vh::RuleFC%s{%d}' % (r, nv or ('R' if ctxref and ri % 2 == 0 else ''), ri) if ri in ctx else '%s >= vh::RuleF%s{%d}' % (r, nv, ri))
        if post:
            r = '(%s)[%d]' % (r, prec)
        rl.append('        ' + r)
    if limits:
        o.append('struct Lim { static const size_t state_count_cap = %d; static const size_t max_sit_count_per_state_cap = %d; };' % tuple(limits))
    o += named
    o.append('auto make() { return new parser(n%d,' % ntid[g.root])
    o.append('    terms(%s),' % ', '.join('t%d' % i for i in range(len(g.ts))))
    o.append('    nterms(%s),' % ', '.join('n%d' % i for i in range(len(g.nts))))
    o.append('    rules(\n%s\n    )%s); }' % (',\n'.join(rl), ', use_generated_lexer{}, Lim{}' if limits else ''))
    o.append('}')
    o.append('int main(int argc, char** argv) { return vh::gen_main([] { return G::make(); }, "%s", argc, argv); }' % gid)
    return '\n'.join(o) + '\n'


def tname_of(t):
    return t if 32 < ord(t) < 127 else '\\x%02X' % ord(t)


def tla_json(g, gid=None, dflt=(), ctx=(), noval=(), nvterms=(), tkinds=None):
    """Same JSON shape as gram.HostGrammar.tla_json, for an exact (generated TU) grammar."""
    gid = gid or g.name
    ntid = {n: i for i, n in enumerate(g.nts)}
    tid = {t: g.ts.index(t) for t in g.ts}      # (a name listed twice denotes its FIRST declaration)
    nnt, nt = len(g.nts), len(g.ts)
    names_nt = ['N%d' % i for i in range(nnt)] + ['##']
    tn = [('r_\\x%02x' % ord(t) if (tkinds or {}).get(i) == 'regex' and i not in nvterms else tname_of(t)) for i, t in enumerate(g.ts)] + ['<eof>', '<error_recovery_token>']      # (an unnamed regex term is named after its pattern)

    def code(x):
        return ntid[x] if x in ntid else (TB + nt + 1 if x == 'error' else TB + tid[x])
    rules = [{'l': ntid[l], 'r': [code(x) for x in rhs], 'prec': prec} for (l, rhs, prec) in g.rules]

    def symname(c):
        return tn[c - TB] if c >= TB else names_nt[c]
    texts = [names_nt[r['l']] + ' <- ' + ' '.join(symname(c) for c in r['r']) for r in rules]
    texts.append('## <- ' + names_nt[ntid[g.root]])
    return {
        'id': gid, 'nnt': nnt, 'nt': nt, 'root': ntid[g.root], 'rules': rules, 'used': [1] * len(rules),
        'tprec': [g.tprec.get(t, 0) for t in g.ts], 'tassoc': [g.tassoc.get(t, 0) for t in g.ts],
        'tbytes': [ord(t) for t in g.ts], 'tnames': tn, 'ntnames': names_nt, 'ruletext': texts,
        'lex': 'chars', 'lexterms': [], 'dflt': sorted(dflt), 'ctxr': sorted(ctx), 'noval': sorted(noval), 'nvterms': sorted(nvterms), 'deflimits': True, 'lexobs': False, 'obsT': True, 'obsC': True, 'alpha': [ord(t) for t in g.ts],
        'uterms': list(range(nt)),
    }


# ---------------------------------------------------------------- token-list grammars over arbitrary term sets (C04)
def carr(name, bs):
    return 'constexpr char %s[] = {%s};' % (name, ', '.join(['char(%d)' % (b if b < 128 else b - 256) for b in bs] + ['char(0)']))


def lex_names(terms):
    out = []
    for t in terms:
        if t[0] == 'C':
            b = t[1]
            out.append(chr(b) if 32 < b < 127 else '\\x%02X' % b)
        elif t[0] == 'S':
            out.append(bytes(t[1]).decode('latin-1'))
        else:
            out.append(t[2] if len(t) > 2 and t[2] else 'r_' + bytes(t[1]).decode('latin-1'))
    return out


def lex_rules(nt, shape):
    """right sides (as term indexes after the leading L) of the token-list grammar: 'list' = L -> L t_i (every token
    sequence is a sentence); 'pairs' = L -> L t_i t_(i+1 mod n) (tokens come in fixed pairs: syntax errors naming terms)"""
    if shape == 'pairs':
        return [[i, (i + 1) % nt] for i in range(nt)]
    if shape == 'errlist':
        # ... plus a recovery rule  L -> L error t_last  (index nt + 1 stands for the error symbol): multi-character lexemes
        # are discarded while resynchronising on the last term
        return [[i] for i in range(nt)] + [[nt + 1, nt - 1]]
    if shape == 'errstmt':
        # statements  L -> L t_0 t_last | L error t_last : every other term is a syntax error, recovered from at t_last
        return [[0, nt - 1], [nt + 1, nt - 1]]
    return [[i] for i in range(nt)]


def lex_tu(gid, terms, shape='list'):
    """L -> <empty> | L t_i  for every term: accepts every token sequence; every term and rule is observed."""
    o = ['#include "rt.hpp"', 'using namespace ctpg;', 'using vh::Node;', 'namespace G {', 'nterm<Node> n0("N0");']
    for i, t in enumerate(terms):
        if t[0] == 'C':
            o.append('auto t%d = typed_term(char_term(%s), vh::TermF{%d});' % (i, cchar(t[1]), i))
        elif t[0] == 'S':
            o.append(carr('d%d' % i, t[1]))
            o.append('auto t%d = typed_term(string_term(d%d), vh::TermF{%d});' % (i, i, i))
        else:
            o.append(carr('d%d' % i, t[1]))
            if len(t) > 2 and t[2]:
                o.append('auto t%d = typed_term(regex_term<d%d>("%s"), vh::TermF{%d});' % (i, i, t[2], i))      # custom display name
            else:
                o.append('auto t%d = typed_term(regex_term<d%d>(0), vh::TermF{%d});' % (i, i, i))
    rl = ['        n0() >= vh::RuleF{0}'] + ['        n0(n0, %s) >= vh::RuleF{%d}' % (', '.join('error' if k == len(terms) + 1 else 't%d' % k for k in rs), i + 1) for i, rs in enumerate(lex_rules(len(terms), shape))]
    o.append('auto make() { return new parser(n0,')
    o.append('    terms(%s),' % ', '.join('t%d' % i for i in range(len(terms))))
    o.append('    nterms(n0),')
    o.append('    rules(\n%s\n    )); }' % ',\n'.join(rl))
    o.append('}')
    o.append('int main(int argc, char** argv) { return vh::gen_main([] { return G::make(); }, "%s", argc, argv); }' % gid)
    return '\n'.join(o) + '\n'


def lex_tla_json(gid, terms, shape='list'):
    nt = len(terms)
    tn = lex_names(terms) + ['<eof>', '<error_recovery_token>']
    rss = lex_rules(nt, shape)
    rules = [{'l': 0, 'r': [], 'prec': 0}] + [{'l': 0, 'r': [0] + [TB + k for k in rs], 'prec': 0} for rs in rss]
    texts = ['N0 <- '] + ['N0 <- N0 ' + ' '.join(tn[k] for k in rs) for rs in rss] + ['## <- N0']
    return {'id': gid, 'nnt': 1, 'nt': nt, 'root': 0, 'rules': rules, 'used': [1] * len(rules),
            'tprec': [0] * nt, 'tassoc': [0] * nt, 'tbytes': [0] * nt, 'tnames': tn, 'ntnames': ['N0', '##'], 'ruletext': texts,
            'lex': 'ref', 'lexterms': [{'kind': t[0], 'data': ([t[1]] if t[0] == 'C' else list(t[1]))} for t in terms],
            'dflt': [], 'ctxr': [], 'noval': [], 'nvterms': [], 'deflimits': True, 'lexobs': False, 'obsT': True, 'obsC': True, 'alpha': [], 'uterms': list(range(nt))}


# ---------------------------------------------------------------- custom lexer (C18)
def clex_name(i):
    """names of custom terms: short ones and long ones that differ only after many characters (names are ids: whole strings)"""
    return 'T%d' % i if i % 3 == 0 else 'custom_terminal_symbol_number_%d' % i


def clex_tu(g, gid):
    """g: gram.Grammar whose terms are abstract (named by single characters); all terms are custom_terms, the lexer is
    vh::byte_lexer<number of terms>"""
    ntid = {n: i for i, n in enumerate(g.nts)}
    tid = {t: g.ts.index(t) for t in g.ts}      # (a name listed twice denotes its FIRST declaration)
    o = ['#include "rt.hpp"', 'using namespace ctpg;', 'using vh::Node;', 'namespace G {']
    for i, n in enumerate(g.nts):
        o.append('nterm<Node> n%d("N%d");' % (i, i))
    for i, t in enumerate(g.ts):
        pr, asc = g.tprec.get(t, 0), g.tassoc.get(t, 0)
        if (pr, asc) == (0, 0):
            o.append('custom_term t%d("%s", vh::TermF{%d});' % (i, clex_name(i), i))
        elif asc == 0:
            o.append('custom_term t%d("%s", vh::TermF{%d}, %d);' % (i, clex_name(i), i, pr))
        else:
            o.append('custom_term t%d("%s", vh::TermF{%d}, %d, associativity(%d));' % (i, clex_name(i), i, pr, asc))
    rl = []
    for ri, (l, rhs, prec) in enumerate(g.rules):
        args = ', '.join('n%d' % ntid[x] if x in ntid else ('error' if x == 'error' else 't%d' % tid[x]) for x in rhs)
        r = 'n%d(%s)' % (ntid[l], args)
        if prec != 0:
            r = '(%s[%d])' % (r, prec)
        rl.append('        %s >= vh::RuleF{%d}' % (r, ri))
    o.append('auto make() { return new parser(n%d,' % ntid[g.root])
    o.append('    terms(%s),' % ', '.join('t%d' % i for i in range(len(g.ts))))
    o.append('    nterms(%s),' % ', '.join('n%d' % i for i in range(len(g.nts))))
    o.append('    rules(\n%s\n    ), use_lexer<vh::byte_lexer<%d>>{}); }' % (',\n'.join(rl), len(g.ts)))
    o.append('}')
    o.append('int main(int argc, char** argv) { return vh::gen_main([] { return G::make(); }, "%s", argc, argv); }' % gid)
    return '\n'.join(o) + '\n'


def clex_tla_json(g, gid):
    j = tla_json(g, gid)
    nt = len(g.ts)
    j['tnames'] = [clex_name(i) for i in range(nt)] + ['<eof>', '<error_recovery_token>']
    names_nt = j['ntnames']

    def symname(c):
        return j['tnames'][c - TB] if c >= TB else names_nt[c]
    j['ruletext'] = [names_nt[r['l']] + ' <- ' + ' '.join(symname(c) for c in r['r']) for r in j['rules']] + ['## <- ' + names_nt[j['root']]]
    j['lex'] = 'byte'
    j['lexobs'] = True
    return j
