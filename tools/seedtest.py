#!/usr/bin/env python3
"""Confirms a seeded change (compiles, suite passes, demo fails with / passes without it) in a scratch worktree, then
runs the given checks against /repo with the change applied and undoes it straight afterwards.
usage: seedtest.py <seed dir with patch.diff + demo.cpp> <property id> [more ids...] [--skip-confirm]"""
import sys, os, subprocess, json, shutil, time

def sh(cmd, **kw):
    return subprocess.run(cmd, shell=True, capture_output=True, text=True, **kw)

def main():
    args = [a for a in sys.argv[1:] if not a.startswith('--')]
    seed, props = os.path.abspath(args[0]), args[1:]
    patch = os.path.join(seed, 'patch.diff')
    res = {'seed': seed, 'confirm': {}, 'checks': {}}
    if '--skip-confirm' not in sys.argv:
        wt = '/tmp/seedverify'
        sh('git -C /repo worktree remove --force %s' % wt)
        shutil.rmtree(wt, ignore_errors=True)
        r = sh('git -C /repo worktree add -q --detach %s HEAD' % wt)
        assert r.returncode == 0, r.stderr
        try:
            demo = os.path.join(seed, 'demo.cpp')
            r = sh('g++ -std=c++17 -I%s/include %s -o %s/demo_clean && %s/demo_clean' % (wt, demo, wt, wt))
            res['confirm']['demo_without_change_exit'] = r.returncode
            r = sh('git -C %s apply %s' % (wt, patch))
            res['confirm']['patch_applies'] = r.returncode == 0
            r = sh('g++ -std=c++17 -I%s/include %s -o %s/demo_mut && %s/demo_mut' % (wt, demo, wt, wt))
            res['confirm']['demo_with_change_exit'] = r.returncode
            res['confirm']['demo_output'] = (r.stdout + r.stderr)[-400:]
            r = sh('cmake -G Ninja -S %s -B %s/_build -DCMAKE_BUILD_TYPE=RelWithDebInfo -DCMAKE_CXX_FLAGS=-Wno-error > /dev/null && cmake --build %s/_build -j16 2>&1 | tail -2 && ctest --test-dir %s/_build -j8 2>&1 | grep "tests passed"' % (wt, wt, wt, wt))
            res['confirm']['suite'] = r.stdout.strip()[-200:]
        finally:
            sh('git -C /repo worktree remove --force %s' % wt)
            shutil.rmtree(wt, ignore_errors=True)
    st = sh('git -C /repo status --porcelain -- include')
    assert st.stdout.strip() == '', 'repo include/ not clean'
    r = sh('git -C /repo apply %s' % patch)
    assert r.returncode == 0, r.stderr
    try:
        for p in props:
            t0 = time.time()
            r = sh('cd /verif && ./check %s --tier quick' % p)
            lines = [l for l in r.stdout.splitlines() if l.startswith(('VIOLATION', 'PASS', 'FAIL', 'INFRA', 'KNOWN', '  {'))]
            res['checks'][p] = {'exit': r.returncode, 'wall_s': round(time.time() - t0, 1), 'lines': [l[:400] for l in lines[:6]]}
    finally:
        sh('git -C /repo checkout -- include')
    print(json.dumps(res, indent=1))

main()
