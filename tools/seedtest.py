#!/usr/bin/env python3
"""Confirms a seeded change (compiles, suite passes, demo fails with / passes without it) in a scratch worktree, then
runs the given checks against /repo with the change applied and undoes it straight afterwards.
usage: seedtest.py <seed dir with patch.diff + demo.cpp> <property id> [more ids...] [--skip-confirm]"""
import sys, os, subprocess, json, shutil, time

def sh(cmd, **kw):
    return subprocess.run(cmd, shell=True, capture_output=True, text=True, errors='replace', **kw)

def main():
    args = [a for a in sys.argv[1:] if not a.startswith('--')]
    seed, props = os.path.abspath(args[0]), args[1:]
    patch = os.path.join(seed, 'patch.diff')
    res = {'seed': seed, 'confirm': {}, 'checks': {}}
    if '--skip-confirm' not in sys.argv:
        wt = '/tmp/seedverify_%d' % os.getpid()
        sh('git -C /repo worktree remove --force %s' % wt)
        shutil.rmtree(wt, ignore_errors=True)
        r = sh('git -C /repo worktree add -q --detach %s HEAD' % wt)
        assert r.returncode == 0, r.stderr
        try:
            demo = os.path.join(seed, 'demo.cpp')
            r = sh('g++ -std=c++17 -I%s/include %s -o %s/demo_clean && %s/demo_clean' % (wt, demo, wt, wt))
            res['confirm']['demo_without_change_exit'] = r.returncode
            r = sh('git -C %s apply %s' % (wt, patch))
            res['confirm']['patch_applies'] = r.returncode == 0
            r = sh('g++ -std=c++17 -I%s/include %s -o %s/demo_mut && %s/demo_mut' % (wt, demo, wt, wt))
            res['confirm']['demo_with_change_exit'] = r.returncode
            res['confirm']['demo_output'] = (r.stdout + r.stderr)[-400:]
            r = sh('cmake -G Ninja -S %s -B %s/_build -DCMAKE_BUILD_TYPE=RelWithDebInfo -DCMAKE_CXX_FLAGS=-Wno-error > /dev/null && cmake --build %s/_build -j16 2>&1 | tail -2 && ctest --test-dir %s/_build -j8 2>&1 | grep "tests passed"' % (wt, wt, wt, wt))
            res['confirm']['suite'] = r.stdout.strip()[-200:]
        finally:
            sh('git -C /repo worktree remove --force %s' % wt)
            shutil.rmtree(wt, ignore_errors=True)
    # the checks run against a scratch copy of the repository with the change applied (VERIF_REPO), never against /repo
    # itself, so that other runs (self-test, background sweeps) are not disturbed; the copy is removed afterwards
    scratch = '/tmp/verif_seed_%d' % os.getpid()
    shutil.rmtree(scratch, ignore_errors=True)
    os.makedirs(scratch)
    for d in ('include', 'tests', 'examples'):
        shutil.copytree(os.path.join('/repo', d), os.path.join(scratch, d))
    r = sh('patch -p1 -s -d %s -i %s' % (scratch, patch))
    assert r.returncode == 0, r.stdout + r.stderr
    try:
        for p in props:
            t0 = time.time()
            env = dict(os.environ); env['VERIF_REPO'] = scratch
            r = subprocess.run('cd /verif && ./check %s --tier quick' % p, shell=True, capture_output=True, text=True, errors='replace', env=env)
            lines = [l for l in r.stdout.splitlines() if l.startswith(('VIOLATION', 'PASS', 'FAIL', 'INFRA', 'KNOWN', '  {'))]
            res['checks'][p] = {'exit': r.returncode, 'wall_s': round(time.time() - t0, 1), 'lines': [l[:400] for l in lines[:6]]}
    finally:
        shutil.rmtree(scratch, ignore_errors=True)
    print(json.dumps(res, indent=1))

main()
