"""C07: translation units in which TLC's expected outcomes become static_asserts (constant evaluation under g++ and
clang++) and run-time comparisons over the three library buffers and constexpr / run-time constructed parser objects.
The TU includes only <ctpg/ctpg.hpp> - no harness header, no CTPG_VERIF."""
import json

M32 = 0xffffffff


def lit(bs):
    return '"' + ''.join('\\%03o' % b for b in bs) + '"'


def hash_tree(nodes, root, tbytes):
    """the value the generated functors compute, from the specification's tree (nodes as printed by TLC)"""
    if root < 0:
        return 0                                  # a default-constructed value (functor-less empty rule)
    n = nodes[root]
    if n['k'] == 0:
        return (tbytes[n['sym']] + 7 * n['line'] + 13 * n['col']) & M32      # the term's value and its source point
    h = (n['sym'] + 1) & M32
    for c in n['ch']:
        h = (h * 31 + hash_tree(nodes, c, tbytes)) & M32
    return h


def tu(g, cases, dflt=()):
    """g: gram.Grammar over single-character terms; cases: list of dict(bytes, ws, nl, ok, val); dflt: rules WITHOUT a functor
    (the left-side value is constructed from the right-side values, in order)"""
    ntid = {n: i for i, n in enumerate(g.nts)}
    o = ['#include <ctpg/ctpg.hpp>', '#include <cstdio>', '#include <string>', 'using namespace ctpg;', 'using namespace ctpg::buffers;',
         'struct H { unsigned r; template<typename... A> constexpr unsigned operator()(A... a) const { unsigned h = r + 1u; ((h = h * 31u + unsigned((unsigned char)char(a))), ...); return h; } };',
         '// nonterminal values are unsigned, term values are chars: one overload set turns both into unsigned',
         'struct HF { unsigned r; template<typename... A> constexpr unsigned operator()(A... a) const { unsigned h = r + 1u; ((h = h * 31u + conv(a)), ...); return h; }',
         '  static constexpr unsigned conv(unsigned v) { return v; } static constexpr unsigned conv(no_type) { return 5u; } static constexpr unsigned conv(const term_value<char>& v) { return unsigned((unsigned char)v.get_value()) + 7u * unsigned(v.get_sp().line) + 13u * unsigned(v.get_sp().column); } };',
         '// the value type of the nonterminals: constructible from what a functor returns and - for rules without a functor - from',
         '// the right-side values themselves, hashed in the order they are handed over',
         'struct V { unsigned h = 0; constexpr V() = default; constexpr V(unsigned x) : h(x) {} constexpr V(const term_value<char>& a) : h(HF{~0u}(a)) {}',
         '  template<typename A0, typename A1, typename... A> constexpr V(const A0& a0, const A1& a1, const A&... a) : h(HF{~0u}(a0, a1, a...)) {}',
         '  constexpr operator unsigned() const { return h; } };']
    for i, n in enumerate(g.nts):
        o.append('constexpr nterm<V> n%d("N%d");' % (i, i))
    # terms without precedence / associativity at odd positions are written the implicit way: a character literal in
    # terms(...) and in the rules, no term object at all
    tname = {}
    for i, t in enumerate(g.ts):
        b = ord(t)
        if i % 2 == 1 and g.tprec.get(t, 0) == 0 and g.tassoc.get(t, 0) == 0 and 32 < b < 127 and t not in "'\\":
            tname[t] = "'%s'" % t
        else:
            tname[t] = 't%d' % i
            o.append('constexpr char_term t%d(char(%d), %d, associativity(%d));' % (i, b if b < 128 else b - 256, g.tprec.get(t, 0), g.tassoc.get(t, 0)))
    tid = {t: g.ts.index(t) for t in g.ts}      # (a name listed twice denotes its FIRST declaration)
    rl = []
    for ri, (l, rhs, prec) in enumerate(g.rules):
        args = ', '.join('n%d' % ntid[x] if x in ntid else ('error' if x == 'error' else tname[x]) for x in rhs)
        r = 'n%d(%s)' % (ntid[l], args)
        if prec:
            r = '(%s[%d])' % (r, prec)
        rl.append('        %s' % r if ri in dflt else '        %s >= HF{%du}' % (r, ri))
    pdef = 'parser(n%d, terms(%s), nterms(%s), rules(\n%s\n    ))' % (ntid[g.root], ', '.join(tname[t] for t in g.ts),
                                                                   ', '.join('n%d' % i for i in range(len(g.nts))), ',\n'.join(rl))
    o.append('constexpr auto p = %s;' % pdef)
    o.append('template<typename B> constexpr auto run(const B& b, bool ws, bool nl, bool vb = false) { utils::no_stream s; return p.parse(parse_options{}.set_skip_whitespace(ws).set_skip_newline(nl).set_verbose(vb), b, s); }')
    o.append('template<typename P, typename B> auto runp(const P& q, const B& b, bool ws, bool nl) { utils::no_stream s; return q.parse(parse_options{}.set_skip_whitespace(ws).set_skip_newline(nl), b, s); }')
    o.append('#ifndef VERIF_RUNTIME_ONLY')
    for i, c in enumerate(cases):
        o.append('constexpr auto r%d = run(cstring_buffer(%s), %s, %s);' % (i, lit(c['bytes']), 'true' if c['ws'] else 'false', 'true' if c['nl'] else 'false'))
        if c['ok']:
            o.append('static_assert(r%d.has_value(), "CT%d:accept");' % (i, i))
            if c['val'] is not None:
                o.append('static_assert(!r%d.has_value() || r%d.value() == %du, "CT%d:value");' % (i, i, c['val'], i))
        else:
            o.append('static_assert(!r%d.has_value(), "CT%d:reject");' % (i, i))
        if not c['ok'] or i % 3 == 0:
            # the same parse with verbose on (the trace goes to no_stream): still a constant expression, same outcome
            o.append('constexpr auto v%d = run(cstring_buffer(%s), %s, %s, true);' % (i, lit(c['bytes']), 'true' if c['ws'] else 'false', 'true' if c['nl'] else 'false'))
            o.append('static_assert(v%d.has_value() == r%d.has_value(), "CT%d:verbose");' % (i, i, i))
    o.append('#endif')
    o.append('int main() {')
    o.append('  auto* q = new auto(%s);  // the same parser, constructed at run time' % pdef)
    o.append('  auto pr = [](int i, const char* how, const auto& r) { printf("%d %s %d %u\\n", i, how, int(r.has_value()), r.has_value() ? unsigned(r.value()) : 0u); };')
    for i, c in enumerate(cases):
        L = lit(c['bytes'])
        n = len(c['bytes'])
        ws, nl = ('true' if c['ws'] else 'false'), ('true' if c['nl'] else 'false')
        o.append('  { static const char d[] = %s;' % L)
        o.append('    pr(%d, "cstring,ctobj", run(cstring_buffer(d), %s, %s)); pr(%d, "cstring,rtobj", runp(*q, cstring_buffer(d), %s, %s));' % (i, ws, nl, i, ws, nl))
        o.append('    pr(%d, "string,ctobj", run(string_buffer(std::string(d, %d)), %s, %s)); pr(%d, "string,rtobj", runp(*q, string_buffer(std::string(d, %d)), %s, %s));' % (i, n, ws, nl, i, n, ws, nl))
        # a string_buffer that was MOVED (its source overwritten) and one that was COPIED (its source destroyed) before use:
        # a buffer kept in a container or returned from a function holds the same text
        o.append('    { string_buffer s0(std::string(d, %d)); string_buffer s1(std::move(s0)); s0 = string_buffer(std::string(%d, char(0x7f))); pr(%d, "string-moved,ctobj", run(s1, %s, %s));' % (n, max(n, 1), i, ws, nl))
        o.append('      auto* s2 = new string_buffer(std::string(d, %d)); string_buffer s3(*s2); delete s2; std::string junk(%d, char(0x7f)); pr(%d, "string-copied,rtobj", runp(*q, s3, %s, %s)); (void)junk; }' % (n, max(n, 1), i, ws, nl))
        # the view is a window into a LARGER buffer: the text is followed by whitespace and a second copy of itself
        o.append('    static const char e[] = %s;' % lit(list(c['bytes']) + [32, 10] + list(c['bytes']) + [32]))
        o.append('    pr(%d, "view,ctobj", run(string_view_buffer(std::string_view(e, %d)), %s, %s)); pr(%d, "view,rtobj", runp(*q, string_view_buffer(std::string_view(e, %d)), %s, %s)); }' % (i, n, ws, nl, i, n, ws, nl))
    o.append('  return 0; }')
    return '\n'.join(o) + '\n'


# ---------------------------------------------------------------- token-list parsers over multi-character terms
def hash_lexeme(bs):
    h = (len(bs) * 131 + 7) & M32
    for b in bs:
        h = (h * 33 + b) & M32
    return h


def hash_lex_tree(nodes, root, inp):
    """value computed by the functors of lex_tu: leaves contribute length and content of their LEXEME"""
    n = nodes[root]
    if n['k'] == 0:
        return (hash_lexeme(inp[n['off']:n['off'] + n['len']]) + 7 * n['line'] + 13 * n['col']) & M32
    h = (n['sym'] + 1) & M32
    for c in n['ch']:
        h = (h * 31 + hash_lex_tree(nodes, c, inp)) & M32
    return h


def lex_tu(terms, shape_rules, cases):
    """terms: lx term descriptors; shape_rules: right sides as term-index lists (gen_tu.lex_rules); cases as for tu()"""
    o = ['#include <ctpg/ctpg.hpp>', '#include <cstdio>', '#include <string>', '#include <string_view>', 'using namespace ctpg;', 'using namespace ctpg::buffers;',
         'constexpr unsigned hl(std::string_view v) { unsigned h = unsigned(v.size()) * 131u + 7u; for (char c : v) h = h * 33u + unsigned((unsigned char)c); return h; }',
         '// term values: string_view (string / regex terms) or char (char terms) - the LEXEME decides the value',
         'struct LF { unsigned r; template<typename... A> constexpr unsigned operator()(A... a) const { unsigned h = r + 1u; ((h = h * 31u + conv(a)), ...); return h; }',
         '  static constexpr unsigned conv(unsigned v) { return v; }',
         '  static constexpr unsigned sp(const source_point& p) { return 7u * unsigned(p.line) + 13u * unsigned(p.column); }',
         '  static constexpr unsigned conv(const term_value<std::string_view>& v) { return hl(v.get_value()) + sp(v.get_sp()); }',
         '  static constexpr unsigned conv(const term_value<char>& v) { char c = v.get_value(); return hl(std::string_view(&c, 1)) + sp(v.get_sp()); } };',
         'constexpr nterm<unsigned> n0("N0");']
    tn = {}
    for i, t in enumerate(terms):
        if t[0] == 'C':
            b = t[1]
            if 32 < b < 127 and chr(b) not in "'\\":
                tn[i] = "'%s'" % chr(b)                       # implicit char_term: a literal in terms(...) and in the rules
            else:
                tn[i] = 't%d' % i
                o.append('constexpr char_term t%d(char(%d));' % (i, b if b < 128 else b - 256))
        elif t[0] == 'S':
            if i % 2 == 1 and all(32 < b < 127 and chr(b) not in '"\\' for b in t[1]):
                tn[i] = '"%s"' % bytes(t[1]).decode('latin-1')    # implicit string_term
            else:
                tn[i] = 't%d' % i
                o.append('constexpr char d%d[] = %s;' % (i, lit(t[1])))
                o.append('constexpr string_term t%d(d%d);' % (i, i))
        else:
            tn[i] = 't%d' % i
            o.append('constexpr char d%d[] = %s;' % (i, lit(t[1])))
            o.append('constexpr regex_term<d%d> t%d("rx%d");' % (i, i, i))
    rl = ['        n0() >= LF{0u}'] + ['        n0(n0, %s) >= LF{%du}' % (', '.join(tn[k] for k in rs), i + 1) for i, rs in enumerate(shape_rules)]
    pdef = 'parser(n0, terms(%s), nterms(n0), rules(\n%s\n    ))' % (', '.join(tn[i] for i in range(len(terms))), ',\n'.join(rl))
    o.append('constexpr auto p = %s;' % pdef)
    o.append('template<typename B> constexpr auto run(const B& b, bool ws, bool nl, bool vb = false) { utils::no_stream s; return p.parse(parse_options{}.set_skip_whitespace(ws).set_skip_newline(nl).set_verbose(vb), b, s); }')
    o.append('template<typename P, typename B> auto runp(const P& q, const B& b, bool ws, bool nl) { utils::no_stream s; return q.parse(parse_options{}.set_skip_whitespace(ws).set_skip_newline(nl), b, s); }')
    o.append('#ifndef VERIF_RUNTIME_ONLY')
    for i, c in enumerate(cases):
        o.append('constexpr auto r%d = run(cstring_buffer(%s), %s, %s);' % (i, lit(c['bytes']), 'true' if c['ws'] else 'false', 'true' if c['nl'] else 'false'))
        if c['ok']:
            o.append('static_assert(r%d.has_value(), "CT%d:accept");' % (i, i))
            if c['val'] is not None:
                o.append('static_assert(!r%d.has_value() || r%d.value() == %du, "CT%d:value");' % (i, i, c['val'], i))
        else:
            o.append('static_assert(!r%d.has_value(), "CT%d:reject");' % (i, i))
        if not c['ok'] or i % 3 == 0:
            # the same parse with verbose on (the trace goes to no_stream): still a constant expression, same outcome
            o.append('constexpr auto v%d = run(cstring_buffer(%s), %s, %s, true);' % (i, lit(c['bytes']), 'true' if c['ws'] else 'false', 'true' if c['nl'] else 'false'))
            o.append('static_assert(v%d.has_value() == r%d.has_value(), "CT%d:verbose");' % (i, i, i))
    o.append('#endif')
    o.append('int main() {')
    o.append('  auto* q = new auto(%s);  // the same parser, constructed at run time' % pdef)
    o.append('  auto pr = [](int i, const char* how, const auto& r) { printf("%d %s %d %u\\n", i, how, int(r.has_value()), r.has_value() ? r.value() : 0u); };')
    for i, c in enumerate(cases):
        L = lit(c['bytes'])
        n = len(c['bytes'])
        ws, nl = ('true' if c['ws'] else 'false'), ('true' if c['nl'] else 'false')
        o.append('  { static const char d[] = %s;' % L)
        o.append('    pr(%d, "cstring,ctobj", run(cstring_buffer(d), %s, %s)); pr(%d, "cstring,rtobj", runp(*q, cstring_buffer(d), %s, %s));' % (i, ws, nl, i, ws, nl))
        o.append('    pr(%d, "string,ctobj", run(string_buffer(std::string(d, %d)), %s, %s)); pr(%d, "string,rtobj", runp(*q, string_buffer(std::string(d, %d)), %s, %s));' % (i, n, ws, nl, i, n, ws, nl))
        # a string_buffer that was MOVED (its source overwritten) and one that was COPIED (its source destroyed) before use:
        # a buffer kept in a container or returned from a function holds the same text
        o.append('    { string_buffer s0(std::string(d, %d)); string_buffer s1(std::move(s0)); s0 = string_buffer(std::string(%d, char(0x7f))); pr(%d, "string-moved,ctobj", run(s1, %s, %s));' % (n, max(n, 1), i, ws, nl))
        o.append('      auto* s2 = new string_buffer(std::string(d, %d)); string_buffer s3(*s2); delete s2; std::string junk(%d, char(0x7f)); pr(%d, "string-copied,rtobj", runp(*q, s3, %s, %s)); (void)junk; }' % (n, max(n, 1), i, ws, nl))
        o.append('    static const char e[] = %s;' % lit(list(c['bytes']) + [32, 10] + list(c['bytes']) + [32]))
        o.append('    pr(%d, "view,ctobj", run(string_view_buffer(std::string_view(e, %d)), %s, %s)); pr(%d, "view,rtobj", runp(*q, string_view_buffer(std::string_view(e, %d)), %s, %s)); }' % (i, n, ws, nl, i, n, ws, nl))
    o.append('  return 0; }')
    return '\n'.join(o) + '\n'
