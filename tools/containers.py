"""spec/Containers.tla -> TLC state graph -> call sequences covering every transition -> replay into the real
ctpg::stdex containers (harness/containers.cpp) -> comparison of result and projected state after every call."""
import os, json, subprocess, collections
import vlib
from vlib import Infra

CONSTS = {'CAP': 3, 'BN': 70, 'BIDX': [0, 63, 64, 69], 'BOUT': [70, 128], 'VALS': [1, 2]}


def _cfg(work):
    p = os.path.join(work, 'Containers.cfg')
    with open(p, 'w') as f:
        f.write('SPECIFICATION Spec\nCONSTANTS\n  CAP = %d\n  VALS = {%s}\n  BN = %d\n  BIDX = {%s}\n  BOUT = {%s}\n' % (
            CONSTS['CAP'], ', '.join(map(str, CONSTS['VALS'])), CONSTS['BN'], ', '.join(map(str, CONSTS['BIDX'])), ', '.join(map(str, CONSTS['BOUT']))))
        f.write('INVARIANTS\n  TypeOK\n  RestUniform\nACTION_CONSTRAINT EdgeLogged\nVIEW vw\nCHECK_DEADLOCK FALSE\n')
    return p


def _key(st, which):
    if which == 'vec':
        return json.dumps(st['vec'])
    if which == 'queue':
        return json.dumps([st['qd'], st['qs']])
    return json.dumps([st['ba'], st['bb']], sort_keys=True)


def graph(workname='containers'):
    work = vlib.scratch(workname)
    r = vlib.run_tlc('Containers', _cfg(work), {}, workname, workers=4, timeout=900)
    if r.exit != 0 or r.errors:
        raise Infra('Containers.tla failed: %s\n%s' % (r.errors[:3], r.out[-1500:]))
    edges = collections.defaultdict(dict)      # which -> {(from key, op json): edge}
    for d in r.lines.get('EDGE', []):
        w = d['w']
        k = (_key(d['from'], w), json.dumps(d['op']))
        prev = edges[w].get(k)
        if prev is not None and _key(prev['to'], w) != _key(d['to'], w):
            raise Infra('Containers.tla is not deterministic per call: %r' % (k,))
        edges[w][k] = d
    return edges, r


def sequences(edges):
    """per object kind: for every transition the spanning-tree path from the initial state to its source, then the call"""
    seqs = []
    for w, es in edges.items():
        out = collections.defaultdict(list)
        for (fk, opj), d in es.items():
            out[fk].append(d)
        init = [fk for fk in out if fk in (json.dumps([]), json.dumps([[], 0]), json.dumps([{'on': [], 'rest': False}, {'on': [], 'rest': False}], sort_keys=True))]
        if len(init) != 1:
            raise Infra('initial state of %s not found in the graph' % w)
        path = {init[0]: []}
        todo = collections.deque(init)
        while todo:
            fk = todo.popleft()
            for d in sorted(out[fk], key=lambda d: json.dumps(d['op'])):
                tk = _key(d['to'], w)
                if tk not in path:
                    path[tk] = path[fk] + [d]
                    todo.append(tk)
        for (fk, opj), d in sorted(es.items()):
            if fk not in path:
                raise Infra('state %s unreachable in the spanning tree' % fk)
            seqs.append((w, path[fk] + [d]))
    return seqs


def _opline(op):
    name, args = op[0], op[1:]
    ints = []
    for a in args:
        if isinstance(a, bool):
            ints.append(int(a))
        elif isinstance(a, int):
            ints.append(a)
    if name in ('verase',):
        ints = ints[:2]
    elif name in ('verasetail',):
        ints = ints[:1]
    elif name == 'bsetto':
        ints = ints[:2]
    elif name in ('btest', 'bset', 'breset', 'bflip'):
        ints = ints[:1]
    elif name in ('qpush',):
        ints = ints[:1]
    elif name in ('qtop', 'qpop', 'beq'):
        ints = []
    return 'O %s %s' % (name, ' '.join(map(str, ints)))


def _expected_res(op):
    """the observable result the specification attaches to the call"""
    name = op[0]
    if name == 'verase':
        return [op[3]]
    if name == 'verasetail':
        return [op[2]]
    if name == 'qpush':
        return [op[2]]
    if name == 'qpop':
        return [op[1]]
    if name == 'qtop':
        return list(op[1:])
    if name in ('bset', 'breset', 'bflip'):
        return [op[2]]
    if name == 'bsetto':
        return [op[3]]
    if name == 'btest':
        return list(op[2:])
    if name == 'beq':
        return [op[1]]
    return []


def replay(seqs, workname='containers'):
    binp = vlib.build_binary('containers', 'containers.cpp', ('-DCT_CAP=%d' % CONSTS['CAP'], '-DCT_BN=%d' % CONSTS['BN']))
    work = vlib.scratch(workname)
    jp, op = os.path.join(work, 'jobs'), os.path.join(work, 'out')
    expect = []
    with open(jp, 'w') as f:
        f.write('B %s\n' % ' '.join(map(str, CONSTS['BIDX'])))
        for (w, path) in seqs:
            f.write('R %s\n' % w)
            expect.append(('reset', w, None))
            for d in path:
                f.write(_opline(d['op']) + '\n')
                expect.append(('op', w, d))
    r = subprocess.run([binp, jp, op], capture_output=True, text=True, timeout=900)
    got = vlib.read_ndjson_lenient(op)
    problems = []
    if r.returncode != 0 or len(got) != len(expect):
        # the call during which the process died: the first expected step without an output line
        calls, k = [], len(got)
        if k < len(expect):
            j = k
            while j >= 0 and expect[j][0] != 'reset':
                j -= 1
            calls = [e[2]['op'] for e in expect[j + 1:k + 1] if e[0] == 'op']
        problems.append({'class': 'the real container died (or left the harness) during the last of these calls', 'exit': r.returncode, 'stderr': (r.stderr or '')[-300:],
                         'object': expect[k][1] if k < len(expect) else None, 'calls': calls, 'lines': len(got), 'expected_lines': len(expect)})
    steps = 0
    seen_bad = set()
    cur = []
    for (kind, w, d), g in zip(expect, got):
        if kind == 'reset':
            cur = []
            continue
        steps += 1
        cur.append(d['op'])
        bad = []
        if g.get('incons'):
            bad.append('observers disagree with each other: ' + g['incons'])
        if g.get('threw'):
            bad.append('out-of-range access inside the container: ' + g['threw'])
        if g['res'] != _expected_res(d['op']):
            bad.append('result %r, specification %r' % (g['res'], _expected_res(d['op'])))
        to = d['to']
        if w == 'vec' and g['vec'] != to['vec']:
            bad.append('contents %r, specification %r' % (g['vec'], to['vec']))
        if w == 'queue' and g['qd'] != to['qd']:
            bad.append('contents %r, specification %r' % (g['qd'], to['qd']))
        if w == 'bits' and (g['ba'] != to['ba'] or g['bb'] != to['bb']):
            bad.append('bits %r / %r, specification %r / %r' % (g['ba'], g['bb'], to['ba'], to['bb']))
        if bad:
            k = (w, json.dumps(d['op']), bad[0][:40])
            if k not in seen_bad:
                seen_bad.add(k)
                problems.append({'class': 'stdex container deviates from spec/Containers.tla', 'object': {'vec': 'cvector<int,%d>' % CONSTS['CAP'], 'queue': 'cqueue<int,%d>' % CONSTS['CAP'], 'bits': 'cbitset<%d>' % CONSTS['BN']}[w],
                                 'calls': list(cur), 'what': bad})
    return problems, steps


def run(workname='containers'):
    edges, r = graph(workname)
    seqs = sequences(edges)
    problems, steps = replay(seqs, workname + '_rt')
    stats = {'distinct_states': r.distinct, 'transitions': sum(len(v) for v in edges.values()), 'sequences_replayed': len(seqs), 'calls_replayed': steps,
             'per_object_transitions': {w: len(v) for w, v in edges.items()}, 'constants': CONSTS}
    return problems, stats, r


if __name__ == '__main__':
    p, s, _ = run()
    print(json.dumps(s))
    for x in p[:10]:
        print(json.dumps(x)[:600])
