"""Grammar catalogue: text notation -> grammar objects -> (a) host descriptors, (b) JSON for the TLA+ modules.

Notation (corpus/grammars.txt):
    == name            [tags...]
    terms: a b +:1:l *:2:l          (optional: declaration order and precedence:assoc, assoc in n/l/r)
    S -> A a | C c | d C c
    A -> p B x [3]                  (explicit rule precedence)
    L ->                            (empty rule)   or   L -> eps
    R -> error ;                    (the error symbol)
Symbols that occur on a left side are nonterminals; every other symbol is a single-character term.
"""
import json, re, itertools, os, random

ASSOC = {'n': 0, 'l': 1, 'r': 2}
TB = 100


class Grammar:
    def __init__(self, name, nts, ts, root, rules, tprec=None, tassoc=None, tags=()):
        self.name = name
        self.nts = list(nts)          # names
        self.ts = list(ts)            # single characters (str of length 1)
        self.root = root              # name
        self.rules = list(rules)      # (lhs name, [symbols: name | char | 'error'], prec)
        self.tprec = dict(tprec or {})
        self.tassoc = dict(tassoc or {})
        self.tags = tuple(tags)

    def is_cyclic(self):
        """some nonterminal derives itself without consuming input (A =>+ A): infinitely ambiguous; an LR driver (the
        specification's as well as any real one) may reduce empty rules for ever on such a grammar"""
        nullable = set()
        changed = True
        while changed:
            changed = False
            for (l, r, _) in self.rules:
                if l not in nullable and all(x in nullable for x in r):
                    nullable.add(l); changed = True
        edges = {n: set() for n in self.nts}
        for (l, r, _) in self.rules:
            for i, x in enumerate(r):
                if x in edges and all(y in nullable for y in r[:i] + r[i + 1:]):
                    edges[l].add(x)
        for start in self.nts:
            seen, todo = set(), list(edges.get(start, ()))
            while todo:
                x = todo.pop()
                if x == start:
                    return True
                if x not in seen:
                    seen.add(x); todo += list(edges.get(x, ()))
        return False

    def has_error(self):
        return any('error' in r[1] for r in self.rules)

    def max_arity(self):
        return max([len(r[1]) for r in self.rules] + [0])

    def shape(self, rule):
        return ''.join('E' if s == 'error' else ('N' if s in self.nts else 'T') for s in rule[1])


def parse_catalogue(path):
    gs = []
    cur = None
    for raw in open(path):
        line = raw.rstrip('\n')
        if not line.strip() or line.lstrip().startswith('#'):
            continue
        if line.startswith('=='):
            if cur:
                gs.append(_finish(cur))
            parts = line[2:].split()
            cur = {'name': parts[0], 'tags': parts[1:], 'terms': None, 'lines': []}
        elif line.startswith('terms:'):
            cur['terms'] = line[len('terms:'):].split()
        elif line.startswith('nts:'):
            cur['nts'] = line[len('nts:'):].split()       # the order of nterms(...) when it is not the order of the rules
        elif line.startswith('root:'):
            cur['root'] = line[len('root:'):].strip()       # the start symbol when it is not the first left side
        else:
            cur['lines'].append(line)
    if cur:
        gs.append(_finish(cur))
    return gs


def _finish(c):
    prods = []
    lhs_order = []
    for line in c['lines']:
        l, r = line.split('->', 1)
        l = l.strip()
        if l not in lhs_order:
            lhs_order.append(l)
        for alt in r.split('|'):
            toks = alt.split()
            prec = 0
            if toks and re.fullmatch(r'\[-?\d+\]', toks[-1]):
                prec = int(toks[-1][1:-1]); toks = toks[:-1]
            toks = [t for t in toks if t != 'eps']
            prods.append((l, toks, prec))
    nts = c.get('nts') or lhs_order
    assert sorted(nts) == sorted(lhs_order), (c['name'], nts, lhs_order)
    ts, tprec, tassoc = [], {}, {}
    if c['terms']:
        for t in c['terms']:
            m = t.split(':')
            ch = m[0] if m[0] else ':'
            ts.append(ch)
            if len(m) > 1 and m[1] != '':
                tprec[ch] = int(m[1])
            if len(m) > 2:
                tassoc[ch] = ASSOC[m[2]]
    for (_, rhs, _) in prods:
        for s in rhs:
            if s != 'error' and s not in nts and s not in ts:
                ts.append(s)
    for t in ts:
        assert len(t) == 1, (c['name'], t)
    return Grammar(c['name'], nts, ts, c.get('root', lhs_order[0]), prods, tprec, tassoc, c['tags'])


# ---------------------------------------------------------------- host mapping
def host_shapes(host_bin):
    import subprocess
    out = subprocess.check_output([host_bin, '--shapes'], text=True).splitlines()
    shapes = []
    nterms = nnts = None
    for l in out:
        p = l.split()
        if p[0] == 'terms':
            nterms, nnts = int(p[1]), int(p[3])
        else:
            shapes.append(p[2] if len(p) > 2 else '')
    return shapes, nterms, nnts


class HostGrammar:
    """A grammar as the host TU sees it: every slot is a rule (unused ones parked on Z), ids are integers."""

    def __init__(self, g, shapes, kterms, knts, gid=None):
        self.src = g
        self.id = gid or g.name
        if len(g.nts) > knts - 1 or len(g.ts) > kterms:
            raise ValueError('does not fit host: symbols')
        self.nnt = knts
        self.nt = kterms
        self.Z = knts - 1
        ntid = {n: i for i, n in enumerate(g.nts)}
        tid = {t: g.ts.index(t) for t in g.ts}      # (a name listed twice denotes its FIRST declaration)
        used = {ord(t) for t in g.ts}
        # unused host terms get bytes that are neither whitespace nor used: 1..8 are free of both
        spare = [b for b in (1, 2, 3, 4, 5, 6, 7, 8, 14, 15, 16, 17) if b not in used]
        self.tbytes = [ord(t) for t in g.ts] + spare[:kterms - len(g.ts)]
        self.tprec = [g.tprec.get(t, 0) for t in g.ts] + [0] * (kterms - len(g.ts))
        self.tassoc = [g.tassoc.get(t, 0) for t in g.ts] + [0] * (kterms - len(g.ts))
        self.root = ntid[g.root]
        free = {}
        for i, s in enumerate(shapes):
            free.setdefault(s, []).append(i)
        self.slot_of_rule = []
        self.slots = [None] * len(shapes)
        for (l, rhs, prec) in g.rules:
            sh = g.shape((l, rhs, prec))
            if not free.get(sh):
                raise ValueError('does not fit host: no free slot of shape ' + repr(sh))
            s = free[sh].pop(0)
            self.slot_of_rule.append(s)
            ids = [ntid[x] if x in ntid else (tid[x] if x != 'error' else -1) for x in rhs]
            self.slots[s] = (ntid[l], ids, prec)
        self.shapes = shapes

    def symcode(self, kind, idx):
        if kind == 'N':
            return idx
        if kind == 'T':
            return TB + idx
        return TB + self.nt + 1

    def rules_tla(self):
        """All slots as rules in slot order (source rule number = slot index)."""
        res = []
        for i, sh in enumerate(self.shapes):
            if self.slots[i] is None:
                rhs = [self.symcode(k, self.Z if k == 'N' else 0) for k in sh]
                res.append({'l': self.Z, 'r': rhs, 'prec': 0, 'used': 0})
            else:
                l, ids, prec = self.slots[i]
                rhs = [self.symcode(k, ids[j]) for j, k in enumerate(sh)]
                res.append({'l': l, 'r': rhs, 'prec': prec, 'used': 1})
        return res

    def desc_text(self):
        out = ['G %s' % self.id]
        for i in range(self.nt):
            out.append('T %d %d %d %d' % (i, self.tbytes[i], self.tprec[i], self.tassoc[i]))
        out.append('ROOT %d' % self.root)
        for i, sl in enumerate(self.slots):
            if sl is not None:
                l, ids, prec = sl
                out.append('R %d %d %d %s' % (i, l, prec, ' '.join(str(max(x, 0)) for x in ids)))
        out.append('END')
        return '\n'.join(out) + '\n'

    def tla_json(self):
        names_nt = ['N%d' % i for i in range(self.nnt - 1)] + ['Z', '##']
        tn = []
        for b in self.tbytes:
            tn.append(chr(b) if 32 < b < 127 else '\\x%02X' % b)
        tn += ['<eof>', '<error_recovery_token>']
        rules = self.rules_tla()

        def symname(c):
            return tn[c - TB] if c >= TB else names_nt[c]
        texts = []
        for r in rules:
            t = names_nt[r['l']] + ' <- '
            t += ' '.join(symname(c) for c in r['r'])
            texts.append(t)
        texts.append('## <- ' + names_nt[self.root])
        return {
            'id': self.id, 'nnt': self.nnt, 'nt': self.nt, 'root': self.root,
            'rules': [{'l': r['l'], 'r': r['r'], 'prec': r['prec']} for r in rules],
            'used': [r['used'] for r in rules],
            'tprec': self.tprec, 'tassoc': self.tassoc, 'tbytes': self.tbytes,
            'tnames': tn, 'ntnames': names_nt, 'ruletext': texts,
            'lex': 'chars', 'lexterms': [], 'dflt': [], 'ctxr': [], 'noval': [], 'nvterms': [], 'deflimits': True, 'lexobs': False, 'obsT': True, 'obsC': True,
            'alpha': [ord(t) for t in self.src.ts],
            'uterms': list(range(len(self.src.ts))),
        }


def hexbytes(bs):
    return ''.join('%02x' % b for b in bs) if bs else '-'


def all_strings(alpha, maxlen):
    for n in range(maxlen + 1):
        for tup in itertools.product(alpha, repeat=n):
            yield list(tup)
