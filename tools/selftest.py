#!/usr/bin/env python3
"""Binding self-test (not a registered check): every patch in mutants/ (the reverts of our own fix: commits and
hand-written mutants) is applied to a scratch copy of the repository OUTSIDE /repo and /verif; the targeted check,
run with VERIF_REPO=<scratch>, must report a violation.  Scratch copies are removed afterwards.
usage: tools/selftest.py [name-substring]"""
import os, sys, subprocess, shutil, json, time, glob
ROOT = os.path.dirname(os.path.dirname(os.path.abspath(__file__)))
TARGET = {
    # (the reverts of 0ede48d and 52e1f99 no longer apply to the current header: seeded/C01-a and mutants/m01 take their place;
    #  the revert of e986e22 became an EQUIVALENT mutant once FIRST of nonterminals stopped using the slice memo: slice (r, M)
    #  can only collide with slice (r+1, 0), which is never computed any more - kept for the record, not expected to be detected)
    'revert-fix-bb55071': ['C01'],
    'revert-fix-0db6208': ['C08'], 'revert-fix-007931b': ['C11'], 'revert-fix-d56b208': ['C11'], 'revert-fix-ead1f71': ['C11'],
    'revert-fix-36f4f1e': ['C03'], 'revert-fix-0e3b0de': ['C06', 'C07'], 'revert-fix-64a3dda': ['C06'], 'revert-fix-e5254df': ['C12'],
    'revert-fix-430499c': ['C14'],
}


def main(tier='quick'):
    flt = sys.argv[1] if len(sys.argv) > 1 and not sys.argv[1].startswith('-') else ''
    results = []
    for patch in sorted(glob.glob(os.path.join(ROOT, 'mutants', '*.diff'))):
        name = os.path.basename(patch)[:-5]
        if flt and flt not in name:
            continue
        props = TARGET.get(name)
        if not props:
            hdr = open(patch).read(400)
            import re
            m = re.search(r'#\s*targets:\s*([C0-9, ]+)', hdr)
            props = [x.strip() for x in m.group(1).split(',')] if m else []
        if not props:
            if name == 'revert-fix-e986e22':
                results.append({'mutant': name, 'applies': True, 'check': 'C01', 'detected': True, 'note': 'equivalent mutant since 52e1f99, skipped'})
            continue
        scratch = '/tmp/verif_mut_' + name
        shutil.rmtree(scratch, ignore_errors=True)
        os.makedirs(scratch)
        for d in ('include', 'tests', 'examples'):
            shutil.copytree(os.path.join('/repo', d), os.path.join(scratch, d))
        r = subprocess.run(['patch', '-p1', '-s', '-d', scratch, '-i', patch], capture_output=True, text=True)
        if r.returncode != 0:
            results.append({'mutant': name, 'applies': False, 'note': (r.stdout + r.stderr)[-200:]})
            shutil.rmtree(scratch, ignore_errors=True)
            continue
        for p in props:
            env = dict(os.environ); env['VERIF_REPO'] = scratch
            t0 = time.time()
            rr = subprocess.run([os.path.join(ROOT, 'check'), p, '--tier', 'quick'], capture_output=True, text=True, env=env, cwd=ROOT)
            first = [l for l in rr.stdout.splitlines() if l.startswith(('VIOLATION', '  {'))][:2]
            results.append({'mutant': name, 'applies': True, 'check': p, 'exit': rr.returncode, 'detected': rr.returncode == 1, 'wall_s': round(time.time() - t0, 1),
                            'first': [f[:240] for f in first]})
            print(json.dumps(results[-1]))
            sys.stdout.flush()
        shutil.rmtree(scratch, ignore_errors=True)
    # evidence files were rewritten by the mutated runs: the caller re-runs the checks on the real tree afterwards
    ok = all(r.get('detected') for r in results if r.get('applies'))
    print('SELFTEST', 'ok' if ok else 'INCOMPLETE', json.dumps([(r['mutant'], r.get('check'), r.get('detected', 'n/a')) for r in results]))
    return 0 if ok else 1


if __name__ == '__main__':
    sys.exit(main())
