"""Term-set layer (C04): generation of term sets, the run-time lx driver, conversion to LexCheck items."""
import os, json, subprocess, itertools, random
import vlib
from vlib import Infra

# term descriptor: ('C', byte) | ('S', bytes) | ('R', pattern bytes)
def C(ch): return ('C', ord(ch))
def S(s): return ('S', list(s.encode('latin-1')))
def R(p, name=None): return ('R', list(p.encode('latin-1'))) if name is None else ('R', list(p.encode('latin-1')), name)      # name: regex_term's custom name

BASIC = [C('a'), C('b'), C('+'), S('ab'), S('if'), S('a1'), S('++'), R('[a-z]+'), R('a*b'), R('[ab]'), R('a+'), R('(a|b)c'), R('[0-9]+'), R('ab?'), R('[a-z][a-z0-9]*')]

FAMILIES = [
    [S('if'), S('in'), S('int'), R('[a-z]+')],
    [R('[a-z]+'), S('if'), S('in'), S('int')],
    [S('+'), S('++'), S('+=')],
    [S('++'), S('+'), S('+=')],
    [R('[0-9]+'), R('[0-9]+\\.[0-9]+'), C('.')],
    [R('0|[1-9][0-9]*'), R('[a-z_][a-z_0-9]*'), C('('), C(')'), C(',')],
    [S('true'), S('false'), S('null'), R('"[^"]*"'), R('-?[0-9]+'), C('{'), C('}'), C('['), C(']'), C(':'), C(',')],
    [R('a'), R('a'), C('a')],
    [C('a'), R('a+')],
    [R('a+'), C('a')],
    [S('a1'), R('[a-z]+')],
    [R('[a-z]+'), S('a1')],
    [S('abc'), S('abd'), S('ab')],
    [R('.'), C('x')],
    [C('x'), R('.')],
    [R('[^x]'), S('xy')],
    [R('\\x80+'), C('a')],
    # repetition counts of two and three digits (the count is read digit by digit)
    [R('[0-9]{12}'), C('-')],
    [R('a{10}'), R('a+b')],
    [R('x{101}'), C('x')],
    # hex escapes written with upper-case digits
    [R('[\\x80-\\xFF]+'), R('\\x4F'), C('a')],
    # '+' over a group with SEVERAL accepting states (alternatives, an optional tail): every one of them loops back
    [R('(a|b)+'), C(',')],
    [R('(ab|c)+'), C(',')],
    [R('(ab?)+'), C(',')],
    [R('(_|[a-z])+'), C(',')],
    # char terms that are not printable (a blank, a control character, a byte with the high bit): the lexer matches the BYTE
    [C('\n'), C('\t'), R('[a-z]+')],
    [C('\xa7'), C('\\'), C('a')],
    [C(' '), C('\x01'), S('\\x')],
    # an OPTIONAL group that begins with a repeated item: the group can be absent
    [R('([0-9]+)?;'), R('[a-z]+')],
    [R('b(a*b)?'), C(',')],
]


def term_text(t):
    if t[0] == 'C':
        return "'%s'" % chr(t[1])
    return ('"%s"' if t[0] == 'S' else 'r(%s)') % bytes(t[1]).decode('latin-1')


def set_text(ts):
    return 'terms(' + ', '.join(term_text(t) for t in ts) + ')'


def enum_sets(maxn):
    out = []
    for n in range(1, maxn + 1):
        for tup in itertools.product(BASIC, repeat=n):
            if len(set(map(lambda t: (t[0], tuple(t[1]) if isinstance(t[1], list) else t[1]), tup))) < n:
                continue
            out.append(list(tup))
    return out


def build_lx():
    return vlib.build_binary('lx', 'lx.cpp')


def run_lx(jobs, workname):
    """jobs: list of (id, terms, inputs[bytes]) -> records in order"""
    binp = build_lx()
    work = vlib.scratch(workname)
    n = max(1, min(vlib.NCPU, len(jobs) // 100 + 1))
    parts = [jobs[i::n] for i in range(n)]
    cmds = []
    for i, part in enumerate(parts):
        jp = os.path.join(work, 'lx%d.jobs' % i)
        with open(jp, 'w') as f:
            for (jid, terms, inputs) in part:
                f.write('L %s\n' % jid)
                for t in terms:
                    if t[0] == 'C':
                        f.write('C %d\n' % t[1])
                    else:
                        f.write('%s %s\n' % (t[0], ''.join('%02x' % b for b in t[1])))
                for s in inputs:
                    f.write('X %s\n' % (''.join('%02x' % b for b in s) or '-'))
        cmds.append(([binp, jp, os.path.join(work, 'lx%d.out' % i)], os.path.join(work, 'lx%d.out' % i), part))
    rs = vlib.run_parallel([(lambda c=c: subprocess.run(c[0], capture_output=True, text=True, timeout=1800)) for c in cmds])
    recs = {}
    crashed = []
    for (cmd, outp, part), r in zip(cmds, rs):
        for rec in vlib.read_ndjson_lenient(outp):
            recs[rec['id']] = rec
        if r.returncode != 0:
            crashed.append((r.returncode, [p for p in part if p[0] not in recs][:1]))
    return [recs.get(j[0]) for j in jobs], crashed, work


def to_item(rec):
    cuts = {0, 256}
    for t in rec['terms']:
        if t['kind'] in ('C', 'S'):
            for b in t['data']:
                cuts |= {b, b + 1}
        for c in t['calls']:
            if c['op'] == 'char':
                cuts |= {c['a'][0], c['a'][0] + 1}
            for lo, hi in c['ranges']:
                cuts |= {lo, hi + 1}
    for st in rec['dfa']:
        for lo, hi, to in st['tr']:
            cuts |= {lo, hi + 1}
    cuts = sorted(cuts)
    segs = [(cuts[i], cuts[i + 1] - 1) for i in range(len(cuts) - 1)]
    K = len(segs)

    def segof(b):
        for i, (lo, hi) in enumerate(segs):
            if lo <= b <= hi:
                return i + 1

    def segset(ranges):
        return [i + 1 for i, (lo, hi) in enumerate(segs) if any(a <= lo and hi <= b for a, b in ranges)]
    terms = []
    base = 0
    z = {'start': 0, 'n': 0}
    for ti, t in enumerate(rec['terms']):
        if t['kind'] in ('C', 'S'):
            terms.append({'kind': t['kind'], 'segs': [segof(b) for b in t['data']], 'calls': [], 'whole': z})
        else:
            calls = []
            last = None
            for c in t['calls']:
                a = c['a']
                sl = lambda i: {'start': a[i] + base, 'n': a[i + 1]}
                if c['op'] == 'char':
                    calls.append({'op': 'set', 'cs': segset([[a[0], a[0]]]), 'n': 0, 'a1': z, 'a2': z, 'ret': sl(1)})
                elif c['op'] == 'set':
                    calls.append({'op': 'set', 'cs': segset(c['ranges']), 'n': 0, 'a1': z, 'a2': z, 'ret': sl(0)})
                elif c['op'] in ('star', 'plus', 'opt'):
                    calls.append({'op': c['op'], 'cs': [], 'n': 0, 'a1': sl(0), 'a2': z, 'ret': sl(2)})
                elif c['op'] == 'rep':
                    calls.append({'op': 'rep', 'cs': [], 'n': a[0], 'a1': sl(1), 'a2': z, 'ret': sl(3)})
                else:
                    calls.append({'op': c['op'], 'cs': [], 'n': 0, 'a1': sl(0), 'a2': sl(2), 'ret': sl(4)})
                last = calls[-1]['ret']
            terms.append({'kind': 'R', 'segs': [], 'calls': calls, 'whole': last or z})
        base = rec['sizes_after'][ti]
    dfa = []
    for st in rec['dfa']:
        tr = [65535] * K
        for lo, hi, to in st['tr']:
            for i, (a, b) in enumerate(segs):
                if lo <= a and b <= hi:
                    tr[i] = to
        dfa.append({'en': bool(st['end']), 'un': bool(st['unr']), 'rec': st['rec'], 'tr': tr})
    return {'id': rec['id'], 'K': K, 'segs': [list(s) for s in segs], 'terms': terms, 'dfa': dfa, 'pred': sum(rec.get('preds', [])) if rec.get('preds') else len(dfa)}
