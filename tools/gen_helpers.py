"""C19: turns the cases enumerated by TLC (spec/Helpers.tla) into translation units that call the REAL helper functors
on tagged arguments in three value categories."""


def block(c, cat):
    """c: case dict from TLC; cat in ('lv', 'rv', 'mo')"""
    h, n, i, j = c['h'], c['n'], c['i'], c['j']
    cid = '%s_n%d_i%d_j%d_%s' % (h, n, i, j, cat)
    T = 'ht::TrMO' if cat == 'mo' else 'ht::Tr'
    C = 'ht::ContT<%s, %s>' % (T, 'false' if cat == 'mo' else 'true')
    o = ['  { ht::reset(); const char* cid = "%s"; ht::cur = cid;' % cid]
    names = []
    for k in range(1, n + 1):
        if h in ('push_back', 'emplace_back') and k == c['cont']:
            o.append('    %s a%d(%d);' % (C, k, k))
        else:
            o.append('    %s a%d(%d);' % (T, k, k))
        names.append('a%d' % k)
    mv = cat in ('rv', 'mo')
    args = ', '.join(('std::move(%s)' % x) if mv else x for x in names)
    intact = ' && '.join(['a%d.id == %d' % (k, k) for k in range(1, n + 1)]) or 'true'
    if h == 'element':
        call = 'ctpg::ftors::_e%d(%s)' % (i, args)           # the documented placeholder objects _e1 .. _e9 themselves
        o.append('    decltype(auto) r = %s;' % call)
        o.append('    ht::check((const void*)&r == (const void*)&a%d, cid, "does not return the %d-th argument itself");' % (i, i))
        o.append('    ht::check((std::is_same_v<decltype(%s), %s%s>), cid, "value category changed");' % (call, T, '&&' if mv else '&'))
        o.append('    ht::check(ht::copies == 0 && ht::moves == 0, cid, "an argument was copied or moved");')
        o.append('    ht::check(%s, cid, "an argument was modified");' % intact)
    elif h == 'construct':
        if cat == 'mo':
            call = 'ctpg::ftors::construct<ht::Wrap, %d>{}(%s)' % (i, args)
        else:
            call = 'ctpg::ftors::construct<ht::Wrap, %d>{}(%s)' % (i, args)
        o.append('    auto r = %s;' % call)
        o.append('    ht::check(r.from == %d, cid, "not built from the %d-th argument");' % (i, i))
        # perfect forwarding: T's constructor sees the argument in the caller's value category - an lvalue handed on as an
        # rvalue lets T move from (empty) the caller's object, an rvalue handed on as an lvalue costs a copy
        o.append('    ht::check(r.as_rvalue == %d, cid, "the argument reaches T\'s constructor in another value category than the caller\'s (%s)");' % (c['reach'][cat], 'rvalue handed on as an lvalue: copied' if mv else 'lvalue handed on as an rvalue: the caller\'s object may be moved from'))
        if not mv:
            o.append('    { std::string s_(40, \'x\'); std::vector<int> v_{1, 2, 3}; %s' % ' '.join('int c%d = %d;' % (k, k) for k in range(1, n + 1)))
            o.append('      auto rs = ctpg::ftors::construct<std::string, %d>{}(%s);' % (i, ', '.join('s_' if k == i else 'c%d' % k for k in range(1, n + 1))))
            o.append('      auto rv = ctpg::ftors::construct<std::vector<int>, %d>{}(%s);' % (i, ', '.join('v_' if k == i else 'c%d' % k for k in range(1, n + 1))))
            o.append('      ht::check(rs.size() == 40 && s_.size() == 40 && rv.size() == 3 && v_.size() == 3, cid, "an lvalue std::string / std::vector handed to construct<> is not left intact (copied from)"); }')
        o.append('    ht::check(ht::copies == 0 && ht::moves == 0, cid, "an argument was copied or moved");')
        o.append('    ht::check(%s, cid, "an argument was modified");' % intact)
        if cat == 'lv':
            # T's constructor may throw (odd values do): the exception leaves the helper as it is, whatever T's moves promise
            o.append('    { bool caught = false; try { auto t_ = ctpg::ftors::construct<ht::ThrowT, %d>{}(%s); (void)t_; } catch (const std::runtime_error&) { caught = true; }' % (i, args))
            o.append('      ht::check(caught == %s, cid, "an exception thrown while T is built does not reach the caller as it was thrown"); }' % ('true' if i % 2 == 1 else 'false'))
        if cat != 'mo':
            # construct<list_type, I>: "constructs list_type{value}" - the list holding exactly the I-th value (Helpers!Built)
            want = c['built'][0] + 10
            ints = ', '.join(('std::move(b%d)' % k) if mv else 'b%d' % k for k in range(1, n + 1))
            o.append('    ' + ' '.join('int b%d = %d;' % (k, k + 10) for k in range(1, n + 1)))
            o.append('    auto l1 = ctpg::ftors::construct<ht::ListT, %d>{}(%s);' % (i, ints))
            o.append('    ht::check(l1.items.size() == 1 && l1.items[0] == %d, cid, "a list type is not built as T{value} (the list of that one value)");' % want)
            o.append('    auto l2 = ctpg::ftors::construct<std::vector<int>, %d>{}(%s);' % (i, ints))
            o.append('    ht::check(l2.size() == 1 && l2[0] == %d, cid, "std::vector is not built as T{value} (the list of that one value)");' % want)
    elif h in ('push_back', 'emplace_back'):
        if h == 'push_back' and cat == 'mo':
            pass
        call = 'ctpg::ftors::%s<%d, %d>{}(%s)' % (h, i, j, args)
        o.append('    decltype(auto) r = %s;' % call)
        o.append('    ht::check((const void*)&r == (const void*)&a%d, cid, "does not return the container argument itself");' % c['cont'])
        o.append('    ht::check((std::is_same_v<decltype(%s), %s&&>), cid, "container not returned as an rvalue");' % (call, C))
        o.append('    ht::check(a%d.items.size() == 2 && a%d.items[0] == -7 && a%d.items[1] == %d, cid, "the element is not appended after the existing contents");' % (c['cont'], c['cont'], c['cont'], c['elem']))
        o.append('    ht::check(ht::copies == 0 && ht::moves == 0, cid, "the container or an argument was copied or moved");')
        if h == 'emplace_back' and cat != 'mo':
            # a std::vector of elements that declare their own comma operator: the helper still returns THAT vector, one longer
            cargs = ', '.join((('std::move(%s)' if mv else '%s') % ('cv' if k == c['cont'] else 'ce' if k == c['elem'] else 'a%d' % k)) for k in range(1, n + 1))
            o.append('    std::vector<ht::CommaE> cv; cv.reserve(4); ht::CommaE ce(5);')
            o.append('    decltype(auto) cr = ctpg::ftors::emplace_back<%d, %d>{}(%s);' % (i, j, cargs))
            o.append('    ht::check((const void*)&cr == (const void*)&cv && cv.size() == 1 && cv[0].id == 5, cid, "element type with its own comma operator: the helper does not return the container it appended to");')
        if h == 'push_back' and cat != 'mo':
            # container and element of ONE recursive type (each has a push_back taking the other): the template's indices decide
            rargs = ', '.join(('std::move(q%d)' % k) if mv else 'q%d' % k for k in range(1, n + 1))
            o.append('    ' + ' '.join('ht::RNode q%d(%d);' % (k, k) for k in range(1, n + 1)))
            o.append('    decltype(auto) rr = ctpg::ftors::push_back<%d, %d>{}(%s);' % (i, j, rargs))
            o.append('    ht::check((const void*)&rr == (const void*)&q%d, cid, "recursive value type: does not return the container argument");' % c['cont'])
            o.append('    ht::check(q%d.items.size() == 1 && q%d.items[0] == %d && q%d.items.empty(), cid, "recursive value type: the container was appended to the element");' % (c['cont'], c['cont'], c['elem'], c['elem']))
        o.append('    ht::check(%s, cid, "an argument was modified");' % intact)
    elif h == 'val':
        call = 'ctpg::ftors::val(42)(%s)' % args
        o.append('    auto r = %s;' % call)
        o.append('    ht::check(r == 42, cid, "val does not return its value");')
        # val(v) returns v ITSELF also when v's type could be built from a braced list of its own kind
        o.append('    { auto n = ctpg::ftors::val(ht::SelfList(7))(%s); ht::check(n.tag == 7 && n.items.empty(), cid, "val(node) does not return the node (a list holding the node instead)"); }' % args)
        o.append('    { std::vector<std::any> va{1, 2, 3}; auto w = ctpg::ftors::val(std::move(va))(%s); ht::check(w.size() == 3, cid, "val(vector<any>) does not return the vector"); }' % args)
        o.append('    ht::check(ht::copies == 0 && ht::moves == 0, cid, "an argument was copied or moved");')
        o.append('    ht::check(%s, cid, "an argument was modified");' % intact)
    else:
        call = 'ctpg::ftors::create<ht::Wrap>{}(%s)' % args
        o.append('    auto r = %s;' % call)
        o.append('    ht::check(r.from == 0, cid, "create does not return a default value");')
        o.append('    ht::check(ht::copies == 0 && ht::moves == 0, cid, "an argument was copied or moved");')
        o.append('    ht::check(%s, cid, "an argument was modified");' % intact)
    o.append('  }')
    return '\n'.join(o)


def tu(cases, cats=('lv', 'rv', 'mo')):
    o = ['#include "helpers_rt.hpp"', 'int main() {', '  std::set_terminate(ht::on_terminate);']
    n = 0
    for c in cases:
        for cat in cats:
            o.append(block(c, cat))
            n += 1
    o.append('  printf("HDONE %d %d %d\\n", ' + str(n) + ', ht::checks, ht::fails);')
    o.append('  return ht::fails ? 1 : 0; }')
    return '\n'.join(o) + '\n', n
