#!/usr/bin/env python3
"""Run once after a fresh restore: checks the tools the checks need and parses every specification module.
Builds nothing that depends on /repo (checks rebuild the harness from /repo's working tree themselves)."""
import subprocess, sys, os, glob, shutil
ROOT = os.path.dirname(os.path.dirname(os.path.abspath(__file__)))
ok = True
for tool in ('java', 'g++', 'clang++', 'python3'):
    if not shutil.which(tool):
        print('missing tool', tool); ok = False
if not os.path.exists('/opt/veriftools/tla/tla2tools.jar'):
    print('missing tla2tools.jar'); ok = False
r = subprocess.run([sys.executable, os.path.join(ROOT, 'tools', 'lint_names.py')])
ok = ok and r.returncode == 0
for m in sorted(glob.glob(os.path.join(ROOT, 'spec', '*.tla'))):
    r = subprocess.run(['java', '-cp', '/opt/veriftools/tla/tla2tools.jar:/opt/veriftools/tla/CommunityModules-deps.jar', 'tla2sany.SANY', os.path.basename(m)],
                       cwd=os.path.join(ROOT, 'spec'), capture_output=True, text=True)
    if r.returncode != 0 or 'rror' in r.stdout.replace('Semantic errors: 0', ''):
        if 'Error' in r.stdout or r.returncode != 0:
            print('SANY failed on', m); print(r.stdout[-1500:]); ok = False
for d in ('build', 'replays', 'evidence'):
    os.makedirs(os.path.join(ROOT, d), exist_ok=True)
print('setup', 'ok' if ok else 'FAILED')
sys.exit(0 if ok else 1)
