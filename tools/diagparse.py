"""write_diag_str text -> records, by line patterns only.  Names are mapped to symbol ids through the name tables
of the dump (first match, as the library itself resolves names)."""
import re

RX_RULE = re.compile(r'^(\d+)    (\S+) <- ?(.*)$')
RX_STATE = re.compile(r'^STATE (\d+)$')
RX_ITEM = re.compile(r'^(\S+) <- (.*)==> (.*)$')
RX_ON = re.compile(r'^On (.*?) (go to|shift to|reduce using|success|S/R CONFLICT, prefer reduce|S/R CONFLICT, prefer shift over reduce|R/R CONFLICT)(.*)$')


def parse(text):
    lines = text.split('\n')
    sec = None
    out = {'rules': [], 'states': [], 'header': {}, 'unknown': [], 'lexer': []}
    cur = None
    for ln in lines:
        if ln in ('PARSER', 'RULES', 'STATES', 'LEXICAL ANALYZER'):
            sec = ln
            continue
        if sec == 'PARSER':
            m = re.match(r'^Number of states: (\d+)\(cap: (\d+)\)$', ln)
            if m:
                out['header']['states'] = int(m.group(1)); out['header']['state_cap'] = int(m.group(2))
            m = re.match(r'^Max number of situations per state: (\d+)\(cap: (\d+)\)$', ln)
            if m:
                out['header']['max_items'] = int(m.group(1)); out['header']['item_cap'] = int(m.group(2))
            continue
        if sec == 'RULES':
            if not ln.strip():
                continue
            m = RX_RULE.match(ln)
            if m:
                out['rules'].append([int(m.group(1)), m.group(2), m.group(3).split()])
            else:
                out['unknown'].append(ln)
            continue
        if sec == 'STATES':
            if not ln.strip():
                continue
            m = RX_STATE.match(ln)
            if m:
                cur = {'n': int(m.group(1)), 'items': [], 'actions': []}
                out['states'].append(cur)
                continue
            m = RX_ON.match(ln)
            if m and cur is not None:
                on, what, rest = m.group(1), m.group(2), m.group(3)
                num = re.search(r'\(?(\d+)\)?', rest)
                kind = {'go to': 'goto', 'shift to': 'shift', 'reduce using': 'reduce', 'success': 'accept',
                        'S/R CONFLICT, prefer reduce': 'sr_reduce', 'S/R CONFLICT, prefer shift over reduce': 'sr_shift',
                        'R/R CONFLICT': 'rr'}[what]
                cur['actions'].append([on, kind, int(num.group(1)) if num and kind not in ('accept', 'rr') else -1])
                continue
            m = RX_ITEM.match(ln)
            if m and cur is not None:
                body = m.group(2).split()
                d = body.index('.') if '.' in body else -1
                cur['items'].append([m.group(1), body[:d], body[d + 1:], m.group(3).strip()])
                continue
            out['unknown'].append(ln)
            continue
        if sec == 'LEXICAL ANALYZER':
            if not ln.strip():
                continue
            m = re.match(r'^STATE (\d+)(.*)$', ln, re.S)
            if not m:
                out['unknown'].append(ln)
                continue
            idx, rest = int(m.group(1)), m.group(2)
            if rest == ' (unreachable) ':
                out['lexer'].append({'n': idx, 'unr': 1, 'rec': 0, 'name': '', 'tr': []})
                continue
            rec = 0
            if rest.startswith(' recognized '):
                rec = 1
                rest = rest[len(' recognized '):]
            k = rest.find('   ')
            if k < 0:
                out['unknown'].append(ln)
                continue
            name, items = rest[:k], rest[k + 3:]
            tr = []
            bad = False
            for it in items.split('  '):
                if it == '':
                    continue
                mm = re.match(r'^\[(\S+) - (\S+)\] -> (\d+)$', it)
                if mm:
                    tr.append([char_of(mm.group(1)), char_of(mm.group(2)), int(mm.group(3))])
                    continue
                mm = re.match(r'^(\S+) -> (\d+)$', it)
                if mm:
                    c = char_of(mm.group(1))
                    tr.append([c, c, int(mm.group(2))])
                    continue
                bad = True
            if bad or any(a < 0 or b < 0 for a, b, _ in tr):
                out['unknown'].append(ln)
                continue
            # maximal runs of equal targets (the diagnostic prints runs of 1-2 characters one by one)
            tr.sort()
            merged = []
            for a, b, t in tr:
                if merged and merged[-1][2] == t and merged[-1][1] + 1 == a:
                    merged[-1][1] = b
                else:
                    merged.append([a, b, t])
            out['lexer'].append({'n': idx, 'unr': 0, 'rec': rec, 'name': name, 'tr': merged})
    return out


def char_of(name):
    if len(name) == 1:
        return ord(name)
    m = re.fullmatch(r'\\x([0-9A-F]{2})', name)
    return int(m.group(1), 16) if m else -1


def to_ids(parsed, dump):
    """names -> symbol ids (nonterminal i -> i, term j -> 100 + j) with the dump's name tables"""
    nts, ts = dump['nterm_names'], dump['term_names']

    def sym(name, prefer_term=None):
        if prefer_term is not True and name in nts:
            return nts.index(name)
        if name in ts:
            return 100 + ts.index(name)
        if name in nts:
            return nts.index(name)
        return -99

    def term(name):
        return 100 + ts.index(name) if name in ts else -99

    def nterm(name):
        return nts.index(name) if name in nts else -99
    res = {'g': dump['g'], 'header': parsed['header'], 'unknown': parsed['unknown'][:5], 'lexer': parsed['lexer'],
           'rules': [[n, nterm(l), [sym(x) for x in r]] for (n, l, r) in parsed['rules']], 'states': []}
    for st in parsed['states']:
        items = [[nterm(l), [sym(x) for x in b], [sym(x) for x in a], term(la)] for (l, b, a, la) in st['items']]
        acts = []
        for (on, kind, arg) in st['actions']:
            acts.append([nterm(on) if kind == 'goto' else term(on), kind, arg])
        res['states'].append({'n': st['n'], 'items': items, 'actions': acts})
    return res
