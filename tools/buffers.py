"""spec/Buffers.tla -> walks over the documented buffer interface (TLC) -> one translation unit executing every walk on
the real buffers: cstring_buffer in constant evaluation (static_assert) and at run time, string_buffer and
string_view_buffer at run time."""
import os, json, subprocess
import vlib
from vlib import Infra

M32 = 0xffffffff
OPC = {'pre': 0, 'post': 1, 'add1': 2, 'add2': 3, 'plus1': 4, 'view': 5}
TEXTS = [[], [97], [97, 0, 98], [200, 10, 32, 255]]


def _cfg(work, maxops):
    p = os.path.join(work, 'Buffers.cfg')
    with open(p, 'w') as f:
        f.write('SPECIFICATION Spec\nCONSTANTS\n  MaxOps = %d\nINVARIANTS\n  TypeOK\n  CaseReported\nCHECK_DEADLOCK FALSE\n' % maxops)
    return p


def expected_hash(walk):
    h = 17
    for st in walk:
        h = (h * 31 + st['ret']) & M32
        h = (h * 31 + st['now']['at']) & M32
        h = (h * 31 + (1 if st['now']['end'] else 0)) & M32
        h = (h * 31 + (3 if st['now']['end'] else 2)) & M32
        if not st['now']['end']:
            h = (h * 31 + st['now']['ch']) & M32
        for b in st['view']:
            h = (h * 33 + b) & M32
    return h


def lit(bs):
    return '"' + ''.join('\\%03o' % b for b in bs) + '"'


def tu(cases):
    o = ['#include <ctpg/ctpg.hpp>', '#include <cstdio>', '#include <string>', '#include <string_view>', 'using namespace ctpg::buffers;',
         '// one walk over the documented interface: begin/end, *it, ++it, it++, ==, (!=, +=, +), get_view',
         'template<typename B> constexpr unsigned walk(const B& b, const int* ops, int n)',
         '{',
         '  auto it = b.begin(); unsigned h = 17u;',
         '  for (int k = 0; k < n; ++k)',
         '  {',
         '    auto r = it;',
         '    switch (ops[k]) { case 0: r = ++it; break; case 1: r = it++; break; case 2: it += 1; r = it; break; case 3: it += 2; r = it; break;',
         '                      case 4: it = it + 1; r = it; break; default: r = it; break; }',
         '    h = h * 31u + unsigned(b.get_view(b.begin(), r).size());',
         '    h = h * 31u + unsigned(b.get_view(b.begin(), it).size());',
         '    h = h * 31u + (it == b.end() ? 1u : 0u);',
         '    h = h * 31u + (it != b.end() ? 2u : 3u);',
         '    if (!(it == b.end())) h = h * 31u + unsigned((unsigned char)*it);',
         '    for (char c : b.get_view(b.begin(), it)) h = h * 33u + unsigned((unsigned char)c);',
         '  }',
         '  return h;',
         '}']
    for i, c in enumerate(cases):
        ops = [OPC[s['op']] for s in c['walk']] or [5]
        n = len(c['walk'])
        o.append('constexpr int o%d[] = {%s};' % (i, ', '.join(map(str, ops))))
        o.append('#ifndef VERIF_RUNTIME_ONLY')
        o.append('static_assert(walk(cstring_buffer(%s), o%d, %d) == %du, "BW%d");' % (lit(c['text']), i, n, c['h'], i))
        o.append('#endif')
    o.append('int main() { int bad = 0;')
    o.append('  auto chk = [&](int i, const char* how, unsigned got, unsigned want) { if (got != want) { printf("BUFBAD %d %s %u %u\\n", i, how, got, want); ++bad; } };')
    for i, c in enumerate(cases):
        n = len(c['walk'])
        L = len(c['text'])
        o.append('  { static const char d[] = %s; static const char e[] = %s;' % (lit(c['text']), lit(list(c['text']) + [32, 120] + list(c['text']))))
        o.append('    chk(%d, "cstring", walk(cstring_buffer(d), o%d, %d), %du);' % (i, i, n, c['h']))
        o.append('    chk(%d, "string", walk(string_buffer(std::string(d, %d)), o%d, %d), %du);' % (i, L, i, n, c['h']))
        o.append('    chk(%d, "view", walk(string_view_buffer(std::string_view(e, %d)), o%d, %d), %du); }' % (i, L, i, n, c['h']))
    o.append('  printf("BUFDONE %d\\n", bad); return 0; }')
    return '\n'.join(o) + '\n'


def run(tier='quick', workname='buffers'):
    work = vlib.scratch(workname)
    r = vlib.run_tlc('Buffers', _cfg(work, 3 if tier == 'quick' else 4), {}, workname, workers=2, timeout=600)
    if r.exit != 0 or r.errors:
        raise Infra('Buffers.tla failed: %s\n%s' % (r.errors[:3], r.out[-1500:]))
    allw = {}
    for d in r.lines.get('BUFCASE', []):
        allw[(tuple(d['text']), tuple(s['op'] for s in d['walk']))] = d
    # maximal walks only (every shorter walk is a prefix of one of them and is checked step by step inside it)
    keys = set(allw)
    cases = []
    for (t, ops), d in sorted(allw.items()):
        if any((t, ops + (x,)) in keys for x in OPC):
            continue
        cases.append({'text': list(t), 'walk': d['walk'], 'h': expected_hash(d['walk'])})
    src = os.path.join(work, 'buffers_walks.cpp')
    with open(src, 'w') as f:
        f.write(tu(cases))
    inc = os.path.join(vlib.REPO, 'include')
    jobs = [('g++', ['g++', '-std=c++17', '-fsyntax-only', '-fconstexpr-ops-limit=1000000000', '-I' + inc, src]),
            ('clang++', ['clang++', '-std=c++17', '-fsyntax-only', '-fconstexpr-steps=1000000000', '-I' + inc, src]),
            ('build', ['g++', '-std=c++17', '-O1', '-DVERIF_RUNTIME_ONLY', '-I' + inc, src, '-o', src[:-4]])]
    rs = vlib.run_parallel([(lambda c=c: subprocess.run(c, capture_output=True, text=True, timeout=1200)) for _, c in jobs])
    problems = []
    import re
    for (kind, _), rr in zip(jobs, rs):
        if rr.returncode != 0:
            bad = sorted(set(int(x) for x in re.findall(r'BW(\d+)', rr.stderr)))
            ex = cases[bad[0]] if bad else None
            problems.append({'class': 'buffer interface: %s' % ('the run-time unit does not compile' if kind == 'build' else 'constant evaluation of a walk over cstring_buffer fails or differs (%s)' % kind),
                             'text': ex and ex['text'], 'operations': ex and [s['op'] for s in ex['walk']], 'compiler_says': rr.stderr[:700]})
    nrt = 0
    if rs[2].returncode == 0:
        rr = subprocess.run([src[:-4]], capture_output=True, text=True, timeout=300)
        if 'BUFDONE' not in rr.stdout:
            problems.append({'class': 'buffer interface: the run-time walks died', 'exit': rr.returncode, 'stderr': rr.stderr[-300:]})
        for ln in rr.stdout.splitlines():
            p = ln.split()
            if p and p[0] == 'BUFBAD':
                c = cases[int(p[1])]
                problems.append({'class': 'buffer interface: %s_buffer shows something else than the text' % p[2], 'text': c['text'], 'operations': [s['op'] for s in c['walk']]})
        nrt = 3 * len(cases)
    stats = {'walks': len(cases), 'texts': TEXTS, 'max_operations': 3 if tier == 'quick' else 4, 'static_asserts_per_compiler': len(cases), 'run_time_walks': nrt,
             'distinct_states': r.distinct}
    return problems[:6], stats, r


if __name__ == '__main__':
    p, s, _ = run()
    print(json.dumps(s))
    for x in p:
        print(json.dumps(x)[:900])
