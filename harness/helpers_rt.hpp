// Support for the generated helper-functor translation units (C19): tagged argument types that count every copy,
// move and conversion, so that "returns the N-th value unchanged / reads no other argument / does not copy the
// container" become observable.  The TU includes only ctpg.hpp besides this file.
#pragma once
#include <ctpg/ctpg.hpp>
#include <cstdio>
#include <vector>
#include <exception>
#include <unistd.h>
#include <stdexcept>
#include <any>
#include <initializer_list>
#include <type_traits>
namespace ht
{
inline int copies = 0, moves = 0, fails = 0, checks = 0;
inline void reset() { copies = 0; moves = 0; }
struct Tr
{
    int id;
    explicit Tr(int i) : id(i) {}
    Tr(const Tr& o) : id(o.id) { ++copies; }
    Tr(Tr&& o) noexcept : id(o.id) { ++moves; o.id = -1000 - o.id; }
    Tr& operator=(const Tr& o) { id = o.id; ++copies; return *this; }
    Tr& operator=(Tr&& o) noexcept { id = o.id; ++moves; return *this; }
};
struct TrMO
{
    int id;
    explicit TrMO(int i) : id(i) {}
    TrMO(const TrMO&) = delete;
    TrMO& operator=(const TrMO&) = delete;
    TrMO(TrMO&& o) noexcept : id(o.id) { ++moves; o.id = -1000 - o.id; }
    TrMO& operator=(TrMO&& o) noexcept { id = o.id; ++moves; return *this; }
};
template<typename E, bool Copyable>
struct ContT
{
    int id;
    std::vector<int> items;
    explicit ContT(int i) : id(i), items{-7} {}      // never empty: "appended" means AFTER what is already there
    ContT(const ContT& o) : id(o.id), items(o.items) { static_assert(Copyable, "container copied"); ++copies; }
    ContT(ContT&& o) noexcept : id(o.id), items(std::move(o.items)) { ++moves; }
    void push_back(const E& e) { items.push_back(e.id); }
    void emplace_back(E&& e) { items.push_back(e.id); }
    // the rest of a sequence container's interface, so that a helper using another member still compiles and is judged
    // by what it does to the contents
    using iterator = std::vector<int>::iterator;
    iterator begin() { return items.begin(); }
    iterator end() { return items.end(); }
    iterator insert(iterator at, const E& e) { return items.insert(at, e.id); }
    iterator insert(iterator at, E&& e) { return items.insert(at, e.id); }
    template<typename... A> iterator emplace(iterator at, E&& e) { return items.insert(at, e.id); }
    void push_front(const E& e) { items.insert(items.begin(), e.id); }
    size_t size() const { return items.size(); }
};
struct Wrap
{
    int from = 0;
    int as_rvalue = -1;     // the value category in which the argument REACHED T's constructor (an rvalue may be moved from)
    Wrap() = default;
    Wrap(const Tr& t) : from(t.id), as_rvalue(0) {}
    Wrap(Tr&& t) : from(t.id), as_rvalue(1) {}
    Wrap(TrMO&& t) : from(t.id), as_rvalue(1) {}
};
// a list type as std::vector is one: a braced list of elements builds that list, parentheses around a number build a COUNT
struct ListT
{
    std::vector<int> items;
    ListT(std::initializer_list<int> il) : items(il) {}
    explicit ListT(int count) : items(size_t(count < 0 ? 0 : count), 0) {}
};
// a recursive value type (a JSON-like node): a braced list of nodes builds a LIST node, a copy / move is the node itself
struct SelfList
{
    int tag = 0;
    std::vector<SelfList> items;
    explicit SelfList(int t) : tag(t) {}
    SelfList(std::initializer_list<SelfList> il) : tag(-1), items(il) {}
    SelfList(const SelfList&) = default;
    SelfList(SelfList&&) = default;
};
// a recursive value type shared by containers AND elements (a JSON-like node): both sides offer push_back, the INDICES say
// which one is the container
struct RNode
{
    int id = 0;
    std::vector<int> items;
    explicit RNode(int i) : id(i) {}
    void push_back(const RNode& e) { items.push_back(e.id); }
    void push_back(RNode&& e) { items.push_back(e.id); }
};
// an element type of a DSL that builds lists with commas: it declares a comma operator of its own (never to be picked up
// by the helpers' internals - the helper returns the container it was given)
struct CommaE
{
    int id = 0;
    explicit CommaE(int i) : id(i) {}
    template<typename C> friend int operator,(CommaE& e, C&&) { return -e.id; }
};
// a type whose construction from a value may THROW (a validating type) while its moves cannot: the exception is the caller's
struct ThrowT
{
    int v = 0;
    ThrowT(const Tr& t) : v(t.id) { if (t.id % 2 == 1) throw std::runtime_error("odd"); }
    ThrowT(ThrowT&&) noexcept = default;
};
inline const char* cur = "";
inline void on_terminate() { printf("HFAIL %s std::terminate was called (an exception did not get out of the helper)\n", cur); fflush(stdout); _exit(0); }
inline void check(bool ok, const char* cid, const char* what)
{
    ++checks;
    if (!ok) { printf("HFAIL %s %s\n", cid, what); ++fails; }
}
}
