// regex::expr<Pattern> objects (automata built during constant evaluation) matched against run-time strings through
// checked buffers, a capturing stream and the friend-access dump.   usage: rxexpr <strings file (hex per line)> <out>
#include "rt.hpp"
using namespace ctpg;

namespace P
{
constexpr char p0[] = "a*";
constexpr char p1[] = "(a|b)*c";
constexpr char p2[] = "[a-z]+[0-9]*";
constexpr char p3[] = "a{3}";
constexpr char p4[] = ".";
constexpr char p5[] = "[^a]";
constexpr char p6[] = "\\x80+";
constexpr char p7[] = "ab?c";
constexpr char p8[] = "x";
constexpr char p9[] = "(ab)+";
constexpr char p10[] = "0|[1-9][0-9]*";
constexpr char p11[] = "[--Z-]";
constexpr char p12[] = "(ab){2}";
constexpr char p13[] = "(a|bc){3}x";
constexpr regex::expr<p0> e0; constexpr regex::expr<p1> e1; constexpr regex::expr<p2> e2; constexpr regex::expr<p3> e3;
constexpr regex::expr<p4> e4; constexpr regex::expr<p5> e5; constexpr regex::expr<p6> e6; constexpr regex::expr<p7> e7;
constexpr regex::expr<p8> e8; constexpr regex::expr<p9> e9; constexpr regex::expr<p10> e10; constexpr regex::expr<p11> e11;
constexpr regex::expr<p12> e12; constexpr regex::expr<p13> e13;
}

template<typename E>
void run(const E& e, const char* pat, const std::vector<std::string>& strs, FILE* out)
{
    {
        std::string o = "{\"dump\":"; vh::jstr(o, pat); o += ",\"dfa\":";
        ctpg_verif::access::dump_dfa(ctpg_verif::access::expr_sm(e), o);
        o += "}\n";
        fwrite(o.data(), 1, o.size(), out);
    }
    for (const auto& s : strs)
    {
        for (int kind = 0; kind < 4; ++kind)
        {
            auto& L = vh::tl_log;
            L.reset();
            bool res = false; std::string threw;
            vh::capture_stream cs;
            try
            {
                if (kind == 0) { vh::checked_buffer b(s, 0); res = e.match(b, cs); }
                else if (kind == 1) { buffers::string_buffer b{std::string(s)}; res = e.match(b, cs); }
                else if (kind == 2) { buffers::string_view_buffer b{std::string_view(s)}; res = e.match(b); }
                else { vh::checked_buffer b(s, 0); res = e.match(match_options{}.set_verbose(true), b, cs); }      // the long overload, verbose
            }
            catch (const std::exception& ex) { threw = ex.what(); }
            std::string o = "{\"pattern\":"; vh::jstr(o, pat);
            o += ",\"s\":"; vh::jbytes(o, s);
            o += ",\"buf\":" + std::to_string(kind) + ",\"match\":" + (res ? "true" : "false");
            long oob = 0; for (const auto& ev : L.ev) if (ev.k.rfind("oob", 0) == 0) ++oob;
            o += ",\"oob\":" + std::to_string(oob) + ",\"threw\":"; vh::jstr(o, threw);
            o += ",\"events\":"; vh::jevents(o, L.ev); o += ",\"partial\":"; vh::jstr(o, L.cur); o += "}\n";
            fwrite(o.data(), 1, o.size(), out);
        }
    }
}

int main(int argc, char** argv)
{
    if (argc < 3) return 2;
    std::vector<std::string> strs;
    { std::ifstream in(argv[1]); std::string l; while (std::getline(in, l)) if (!l.empty()) strs.push_back(vh::unhex(l)); }
    FILE* out = fopen(argv[2], "w");
    if (!out) return 2;
    run(P::e0, P::p0, strs, out); run(P::e1, P::p1, strs, out); run(P::e2, P::p2, strs, out); run(P::e3, P::p3, strs, out);
    run(P::e4, P::p4, strs, out); run(P::e5, P::p5, strs, out); run(P::e6, P::p6, strs, out); run(P::e7, P::p7, strs, out);
    run(P::e8, P::p8, strs, out); run(P::e9, P::p9, strs, out); run(P::e10, P::p10, strs, out); run(P::e11, P::p11, strs, out);
    run(P::e12, P::p12, strs, out); run(P::e13, P::p13, strs, out);
    fclose(out);
    return 0;
}
