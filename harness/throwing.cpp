// C14 when a FUNCTOR THROWS: the exception reaches the caller of parse() (it is the caller's exception), and every
// semantic value of the abandoned parse - the ones pending on the value stack, the arguments handed to the functor - is
// destroyed exactly once on the way out.  A tracked value type (std::vector value stack) observes construction, moves,
// copies, uses and destruction; the events go through spec/TraceValues.tla like those of the other C14 runs.
// usage: throwing <out.ndjson>      (includes only ctpg.hpp: no hook)
#include <ctpg/ctpg.hpp>
#include <cstdio>
#include <exception>
#include <stdexcept>
#include <string>
#include <vector>
#include <unistd.h>

using namespace ctpg;
using namespace ctpg::buffers;

struct Ev { const char* k; long a, b; };
static std::vector<Ev> g_ev;
static long g_next_oid = 0, g_next_pay = 0;
static void ev(const char* k, long a, long b) { g_ev.push_back({ k, a, b }); }

struct TV
{
    long oid = -1, pay = -1;
    TV() : oid(g_next_oid++) { ev("v_new", oid, -1); }
    explicit TV(long p) : oid(g_next_oid++), pay(p) { ev("v_new", oid, p); }
    TV(const TV& o) : oid(g_next_oid++), pay(o.pay) { ev("v_copy", o.oid, oid); }
    TV(TV&& o) noexcept : oid(g_next_oid++), pay(o.pay) { o.pay = -1; ev("v_move", o.oid, oid); }
    TV& operator=(const TV& o) { pay = o.pay; ev("v_cassign", o.oid, oid); return *this; }
    TV& operator=(TV&& o) noexcept { pay = o.pay; o.pay = -1; ev("v_massign", o.oid, oid); return *this; }
    ~TV() { ev("v_dtor", oid, -1); }
};
struct functor_failure : std::runtime_error { using std::runtime_error::runtime_error; };

static TV take(TV&& v) { ev("v_take", v.oid, v.pay); TV r(g_next_pay++); return r; }

nterm<TV> list("list");
nterm<TV> item("item");
typed_term x(char_term('x'), [](std::string_view) { return TV(g_next_pay++); });
typed_term bang(char_term('!'), [](std::string_view) { return TV(g_next_pay++); });
char_term lp('('), rp(')'), comma(',');

auto make()
{
    return parser(list, terms(x, bang, lp, rp, comma), nterms(list, item), rules(
        item(x) >= [](term_value<TV>&& t) { ev("v_take", t.get_value().oid, t.get_value().pay); return TV(g_next_pay++); },
        item(bang) >= [](term_value<TV>&& t) -> TV { ev("v_take", t.get_value().oid, t.get_value().pay); throw functor_failure("the item functor refuses '!'"); },
        item(lp, list, rp) >= [](skip, TV&& l, skip) { return take(std::move(l)); },
        list(item) >= [](TV&& i) { return take(std::move(i)); },
        list(list, comma, item) >= [](TV&& l, skip, TV&& i) { ev("v_take", i.oid, i.pay); return take(std::move(l)); }
    ));
}

template<typename P>
static void one(const P& p, const char* text, FILE* out, const std::string& tag = "throw:")
{
    g_ev.clear();
    utils::no_stream ns;
    bool ok = false, threw = false;
    std::string what;
    try
    {
        auto r = p.parse(parse_options{}, string_buffer(text), ns);
        ok = r.has_value();
        if (ok) ev("v_take", r.value().oid, r.value().pay);       // the caller consumes the result
    }
    catch (const functor_failure& e) { threw = true; what = e.what(); }
    std::string o = std::string("{\"id\":\"") + tag + text + "\",\"ok\":" + (ok ? "true" : "false") + ",\"threw\":" + (threw ? "true" : "false") + ",\"events\":[";
    bool first = true;
    for (const Ev& e : g_ev) { if (!first) o += ','; first = false; o += std::string("[\"") + e.k + "\"," + std::to_string(e.a) + "," + std::to_string(e.b) + "]"; }
    o += "]}\n";
    fputs(o.c_str(), out);
    fflush(out);
}

int main(int argc, char** argv)
{
    if (argc < 2) { fprintf(stderr, "usage: throwing <out>\n"); return 2; }
    FILE* out = fopen(argv[1], "w");
    if (!out) { perror("out"); return 2; }
    std::set_terminate([] { const char m[] = "TERMINATE: an exception thrown by a functor did not reach the caller of parse()\n"; (void)!write(2, m, sizeof m - 1); _exit(70); });
    auto p = make();
    for (const char* t : { "x", "x,x", "!", "x,!", "!,x", "x,x,!,x", "(x,(x,!))", "((!))", "(x,x),(x,(!),x)", "x,(x", "(x,x),x" })
        one(p, t, out);
    // C15: a call AFTER a call that an exception abandoned is the call it would be in isolation (same thread, same parser)
    one(p, "x,x,(x)", out, "base:");
    for (const char* t : { "!", "x,!", "(x,(x,!))", "x,x,!,x" })
    {
        one(p, t, out, std::string("again:") + t + ":");
        one(p, "x,x,(x)", out, std::string("after:") + t + ":");
    }
    fclose(out);
    return 0;
}
