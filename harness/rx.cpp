// Run-time driver of the REAL regex front end and automaton builder:
//   pattern text --regex_lexer + regex_parser_object--> builder calls --dfa_builder--> automaton --dfa_match--> verdicts
// context_parse accepts any context, so a recording builder (which delegates every call to the real dfa_builder)
// observes the call sequence; the pattern is read through a checked buffer.
//
// usage: rx <jobs> <out>     jobs lines:  P <id> <hexpattern>   followed by   S <hexstring>   lines for that pattern
#include "rt.hpp"
using namespace ctpg;

constexpr size_t MAXN = 320;

struct Call { std::string op; std::vector<long> a; std::vector<std::vector<long>> ranges; };

static std::vector<std::vector<long>> subset_ranges(const regex::char_subset& s)
{
    std::vector<std::vector<long>> r;
    size_t i = 0;
    while (i < 256)
    {
        if (!s.test(i)) { ++i; continue; }
        size_t j = i;
        while (j + 1 < 256 && s.test(j + 1)) ++j;
        r.push_back({ long(i), long(j) });
        i = j + 1;
    }
    return r;
}

struct RecBuilder
{
    using slice = utils::slice;
    regex::dfa<MAXN>* sm;
    regex::dfa_builder<MAXN> b;
    std::vector<Call>* calls;
    RecBuilder(regex::dfa<MAXN>& sm, std::vector<Call>& calls) : sm(&sm), b(sm), calls(&calls) {}
    slice ret(slice s) { calls->back().a.push_back(long(s.start)); calls->back().a.push_back(long(s.n)); return s; }
    slice primary_char(char c) { calls->push_back({ "char", { long((unsigned char)c) }, {} }); return ret(b.primary_char(c)); }
    slice primary_subset(regex::char_subset s) { calls->push_back({ "set", {}, subset_ranges(s) }); return ret(b.primary_subset(s)); }
    slice star(slice s) { calls->push_back({ "star", { long(s.start), long(s.n) }, {} }); return ret(b.star(s)); }
    slice plus(slice s) { calls->push_back({ "plus", { long(s.start), long(s.n) }, {} }); return ret(b.plus(s)); }
    slice opt(slice s) { calls->push_back({ "opt", { long(s.start), long(s.n) }, {} }); return ret(b.opt(s)); }
    slice rep(slice s, size32_t n) { calls->push_back({ "rep", { long(n), long(s.start), long(s.n) }, {} }); return ret(b.rep(s, n)); }
    slice cat(slice s1, slice s2) { calls->push_back({ "cat", { long(s1.start), long(s1.n), long(s2.start), long(s2.n) }, {} }); return ret(b.cat(s1, s2)); }
    slice alt(slice s1, slice s2) { calls->push_back({ "alt", { long(s1.start), long(s1.n), long(s2.start), long(s2.n) }, {} }); return ret(b.alt(s1, s2)); }
};

// the library's own entry point for the reserved size: analyze_dfa_size takes a char array, so run-time patterns
// are dispatched over their length (longer patterns: -2 = not driven through the entry point)
#ifndef RX_API_MAX
#define RX_API_MAX 40
#endif
template<size_t N>
long api_size_one(const std::string& p, std::string& threw)
{
    char arr[N] = {};
    for (size_t i = 0; i + 1 < N; ++i) arr[i] = p[i];
    try { return long(regex::analyze_dfa_size(arr)); }
    catch (const std::exception& e) { threw = e.what(); return -1; }
}
template<size_t... I>
long api_size(const std::string& p, std::string& threw, std::index_sequence<I...>)
{
    long r = -2;
    ((p.size() == I ? (r = api_size_one<I + 1>(p, threw), 0) : 0), ...);
    return r;
}

struct PJob { std::string id, pat; std::vector<std::string> strs; };

int main(int argc, char** argv)
{
    if (argc < 3) { fprintf(stderr, "usage: rx <jobs> <out>\n"); return 2; }
    int rc = 0;
    vh::run_big_stack([&]
    {
        std::vector<PJob> jobs;
        {
            std::ifstream in(argv[1]);
            std::string line;
            while (std::getline(in, line))
            {
                std::istringstream is(line);
                std::string tag, a, b2;
                is >> tag;
                if (tag == "P") { is >> a >> b2; jobs.push_back({ a, vh::unhex(b2), {} }); }
                else if (tag == "S" && !jobs.empty()) { is >> a; jobs.back().strs.push_back(vh::unhex(a)); }
            }
        }
        FILE* out = fopen(argv[2], "w");
        if (!out) { perror("out"); rc = 2; return; }
        auto dfa_holder = std::make_unique<regex::dfa<MAXN>>();
        for (const auto& j : jobs)
        {
            std::string o;
            auto& L = vh::tl_log;
            // ---- pass 1: the size analyser, exactly as analyze_dfa_size drives it (decides validity)
            L.reset();
            bool valid = false; long pred = -1; std::string threw1;
            {
                vh::checked_buffer buf(j.pat, 1);
                utils::no_stream ns;
                regex::dfa_size_analyzer an;
                try
                {
                    auto r = regex::regex_parser::regex_parser_object.context_parse(an, parse_options{}.set_skip_whitespace(false), buf, ns);
                    valid = r.has_value();
                    if (valid) pred = long(r.value().n);
                }
                catch (const std::exception& e) { threw1 = e.what(); }
            }
            std::vector<vh::Event> ev1 = L.ev;
            std::string threw0;
            long api = api_size(j.pat, threw0, std::make_index_sequence<RX_API_MAX>{});
            // ---- pass 2: the real builder behind a recording context
            L.reset();
            std::vector<Call> calls;
            *dfa_holder = regex::dfa<MAXN>();
            bool built = false; std::string threw2; utils::slice whole{ 0, 0 };
            {
                vh::checked_buffer buf(j.pat, 1);
                utils::no_stream ns;
                RecBuilder rb(*dfa_holder, calls);
                try
                {
                    auto r = regex::regex_parser::regex_parser_object.context_parse(rb, parse_options{}.set_skip_whitespace(false), buf, ns);
                    if (r.has_value()) { built = true; whole = r.value(); rb.b.mark_end_states(whole, 0); }
                }
                catch (const std::exception& e) { threw2 = e.what(); }
            }
            std::vector<vh::Event> ev2 = L.ev;
            o += "{\"id\":"; vh::jstr(o, j.id);
            o += ",\"pattern\":"; vh::jbytes(o, j.pat);
            o += ",\"valid\":"; o += valid ? "true" : "false";
            o += ",\"built\":"; o += built ? "true" : "false";
            o += ",\"size_pred\":" + std::to_string(pred) + ",\"size_used\":" + std::to_string(long(dfa_holder->size()));
            o += ",\"size_api\":" + std::to_string(api) + ",\"threw0\":"; vh::jstr(o, threw0);
            o += ",\"slice\":[" + std::to_string(whole.start) + "," + std::to_string(whole.n) + "]";
            o += ",\"threw1\":"; vh::jstr(o, threw1); o += ",\"threw2\":"; vh::jstr(o, threw2);
            o += ",\"reads1\":"; vh::jevents(o, ev1); o += ",\"reads2\":"; vh::jevents(o, ev2);
            o += ",\"calls\":[";
            for (size_t i = 0; i < calls.size(); ++i)
            {
                if (i) o += ',';
                o += "{\"op\":"; vh::jstr(o, calls[i].op); o += ",\"a\":[";
                for (size_t k = 0; k < calls[i].a.size(); ++k) { if (k) o += ','; o += std::to_string(calls[i].a[k]); }
                o += "],\"ranges\":[";
                for (size_t k = 0; k < calls[i].ranges.size(); ++k) { if (k) o += ','; o += "[" + std::to_string(calls[i].ranges[k][0]) + "," + std::to_string(calls[i].ranges[k][1]) + "]"; }
                o += "]}";
            }
            o += "],\"dfa\":";
            if (built) ctpg_verif::access::dump_dfa(*dfa_holder, o); else o += "null";
            o += ",\"matches\":[";
            if (built)
            {
                bool first = true;
                for (const auto& sstr : j.strs)
                {
                    L.reset();
                    vh::checked_buffer sb(sstr, 0);
                    utils::no_stream ns;
                    std::string threw3;
                    recognized_term rt;
                    try { rt = regex::dfa_match(*dfa_holder, match_options{}, source_point{}, sb.begin(), sb.end(), ns); }
                    catch (const std::exception& e) { threw3 = e.what(); }
                    if (!first) o += ',';
                    first = false;
                    o += "{\"s\":"; vh::jbytes(o, sstr);
                    o += ",\"idx\":" + std::to_string(rt.term_idx == uninitialized16 ? -1 : long(rt.term_idx));
                    o += ",\"len\":" + std::to_string(rt.term_idx == uninitialized16 ? -1 : long(rt.len));
                    o += ",\"oob\":" + std::to_string(long(L.ev.size())) + ",\"threw\":"; vh::jstr(o, threw3); o += "}";
                }
            }
            o += "]}\n";
            fwrite(o.data(), 1, o.size(), out);
        }
        fclose(out);
    });
    return rc;
}
