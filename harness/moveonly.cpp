// C14: "move-only value types work" - a parser whose nonterminal values AND term values are move-only must compile
// and parse.  (Compiled and run by ./check C14; exit 0 = all fine.)
#include <ctpg/ctpg.hpp>
#include <memory>
#include <cstdio>
using namespace ctpg;
using namespace ctpg::buffers;

struct MO
{
    int v = 0;
    MO() = default;
    explicit MO(int v) : v(v) {}
    MO(const MO&) = delete;
    MO& operator=(const MO&) = delete;
    MO(MO&&) = default;
    MO& operator=(MO&&) = default;
};

constexpr nterm<MO> list("list");
constexpr nterm<MO> top("top");            // top(list) has NO functor: the value of `list` is handed on as it is (moved)
constexpr nterm<std::unique_ptr<int>> item("item");
// a term whose VALUE is move-only: typed_term with a functor returning MO
constexpr typed_term num(char_term('1'), [](std::string_view) { return MO(1); });

auto make()
{
    return parser(
        top,
        terms(num, ','),
        nterms(top, list, item),
        rules(
            top(list),
            item(num) >= [](const term_value<MO>& t) { return std::make_unique<int>(t.get_value().v); },
            list(item) >= [](std::unique_ptr<int>&& p) { return MO(*p); },
            list(list, ',', item) >>= [](auto&& /*context*/, MO&& l, skip, std::unique_ptr<int>&& p) { return MO(l.v + *p); }
        ));
}

int main()
{
    auto p = make();
    int ctx = 0;
    auto r = p.context_parse(ctx, string_buffer("1,1,1"));
    if (!r.has_value() || r.value().v != 3) { printf("wrong result\n"); return 1; }
    auto r2 = p.parse(string_buffer("1,,1"));
    if (r2.has_value()) { printf("accepted a wrong input\n"); return 1; }
    printf("ok\n");
    return 0;
}
