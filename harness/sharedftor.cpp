// C13: ONE stateless functor TYPE (callable with and without a leading context) attached with >= to some rules and with >>= to
// others of the same nonterminal and the same value types.  Which call a reduction makes is a property of the RULE (how the
// functor was attached), never of the functor's type.  For every word over {a, b, c, d} up to length 6 the list grammar
//   list -> item | list item ;   item -> 'a' (>= F)  |  'b' (>>= F)  |  'c' (>>= F)  |  'd' (>= F)
// reduces one item rule per character, in input order (Driver.tla: reductions happen in the order of the rightmost derivation
// reversed); the expected sequence of plain / contextual calls and of the contexts seen is therefore the word itself.
// The mirrored grammar attaches >>= FIRST (item -> 'a' (>>= F) | 'b' (>= F) ...).
// output: one line "BAD <what>" per deviation, "DONE <words> <calls>" at the end.
#include <ctpg/ctpg.hpp>
#include <cstdio>
#include <string>
#include <vector>

using namespace ctpg;
using namespace ctpg::buffers;

struct Ctx
{
    std::vector<int> seen;
    Ctx() = default;
    Ctx(const Ctx&) = delete;
    Ctx& operator=(const Ctx&) = delete;
};

static std::string calls;            // 'p' plain, 'c' contextual with the caller's object, 'x' contextual with another object
static const Ctx* the_ctx = nullptr;

struct F
{
    int operator()(char) const { calls += 'p'; return 1; }
    template<typename C>
    int operator()(C&& c, char ch) const
    {
        if constexpr (std::is_same_v<std::decay_t<C>, Ctx>)
        {
            calls += (&c == the_ctx) ? 'c' : 'x';
            if constexpr (!std::is_const_v<std::remove_reference_t<C>>)
                c.seen.push_back(ch);
        }
        else
            calls += 'x';
        return 1;
    }
};
struct G        // a second stateless type, over two value positions
{
    int operator()(int a, int b) const { calls += 'P'; return a + b; }
    template<typename C>
    int operator()(C&& c, int a, int b) const { calls += (((const void*)&c) == (const void*)the_ctx) ? 'C' : 'X'; return a + b; }
};

constexpr nterm<int> list("list");
constexpr nterm<int> item("item");

static parser p1(list, terms('a', 'b', 'c', 'd'), nterms(list, item),
    rules(
        list(item) >= [](int v) { return v; },
        list(list, item) >= G{},
        item('a') >= F{},
        item('b') >>= F{},
        item('c') >>= F{},
        item('d') >= F{}
    ));
static parser p2(list, terms('a', 'b', 'c', 'd'), nterms(list, item),
    rules(
        list(item) >= [](int v) { return v; },
        list(list, item) >>= G{},
        item('a') >>= F{},
        item('b') >= F{},
        item('c') >= F{},
        item('d') >>= F{}
    ));

static long nbad = 0;
static void bad(const char* g, const std::string& w, const char* what, const std::string& got, const std::string& want)
{
    if (nbad++ < 20)
        std::printf("BAD %s word=%s %s got=%s want=%s\n", g, w.c_str(), what, got.c_str(), want.c_str());
}

template<typename P>
static void run(const P& p, const char* name, const std::string& w, const char* ctxset, bool g_ctx, long& ncalls)
{
    std::string want_items, want_all;
    for (size_t i = 0; i < w.size(); ++i)
    {
        bool c = std::string(ctxset).find(w[i]) != std::string::npos;
        want_all += c ? 'c' : 'p';
        if (i > 0)
            want_all += g_ctx ? 'C' : 'P';
    }
    std::string want_seen;
    for (char ch : w)
        if (std::string(ctxset).find(ch) != std::string::npos)
            want_seen += ch;
    // context_parse with the caller's object
    {
        Ctx ctx; the_ctx = &ctx; calls.clear();
        auto r = p.context_parse(ctx, string_buffer(w.c_str()));
        ncalls += long(calls.size());
        if (!r || *r != int(w.size())) bad(name, w, "result", r ? std::to_string(*r) : "none", std::to_string(w.size()));
        if (calls != want_all) bad(name, w, "calls(context_parse)", calls, want_all);
        std::string seen(ctx.seen.begin(), ctx.seen.end());
        if (seen != want_seen) bad(name, w, "contexts-seen", seen, want_seen);
    }
    // parse(): no caller object; the >>= functors still take a (library-made) context argument, the >= functors none
    {
        the_ctx = nullptr; calls.clear();
        auto r = p.parse(string_buffer(w.c_str()));
        ncalls += long(calls.size());
        std::string shape;
        for (char k : calls) shape += (k == 'p' || k == 'P') ? 'p' : 'c';
        std::string want_shape;
        for (char k : want_all) want_shape += (k == 'p' || k == 'P') ? 'p' : 'c';
        if (!r || *r != int(w.size())) bad(name, w, "result(parse)", r ? std::to_string(*r) : "none", std::to_string(w.size()));
        if (shape != want_shape) bad(name, w, "calls(parse)", shape, want_shape);
    }
}

int main()
{
    long words = 0, ncalls = 0;
    const char al[] = "abcd";
    for (int len = 1; len <= 6; ++len)
    {
        long n = 1; for (int i = 0; i < len; ++i) n *= 4;
        for (long k = 0; k < n; ++k)
        {
            std::string w; long x = k;
            for (int i = 0; i < len; ++i) { w += al[x % 4]; x /= 4; }
            run(p1, "p1", w, "bc", false, ncalls);
            run(p2, "p2", w, "ad", true, ncalls);
            ++words;
        }
    }
    std::printf("DONE %ld %ld\n", words, ncalls);
    return 0;
}
