// Replays call sequences generated from spec/Containers.tla (TLC's state graph) into the REAL ctpg::stdex containers
// and prints, after every call, the call's observable result and the projected abstract state (one JSON line each).
// usage: containers <jobs> <out>      jobs: "R <kind>" starts a fresh object, "O <op> <ints...>" makes one call
#include <ctpg/ctpg.hpp>
#include <cstdio>
#include <fstream>
#include <sstream>
#include <string>
#include <vector>
#include <utility>

#ifndef CT_CAP
#define CT_CAP 3
#endif
#ifndef CT_BN
#define CT_BN 70
#endif

namespace ctpg_verif
{
    [[noreturn]] void bounds_fail(const char* what, size_t idx, size_t cap)
    {
        throw std::runtime_error(std::string("bounds:") + what + " idx=" + std::to_string(idx) + " cap=" + std::to_string(cap));
    }
}

using namespace ctpg;
using Vec = stdex::cvector<int, CT_CAP>;
using Queue = stdex::cqueue<int, CT_CAP>;
using Bits = stdex::cbitset<CT_BN>;

static std::vector<long> bidx;      // the indexed positions of the model (from the "B" line)

static std::string jl(const std::vector<long>& v)
{
    std::string o = "[";
    for (size_t i = 0; i < v.size(); ++i) { if (i) o += ','; o += std::to_string(v[i]); }
    return o + "]";
}

// projected state of a cvector + internal consistency of its observers
static std::string proj_vec(const Vec& v, std::string& incons)
{
    std::vector<long> c;
    for (auto it = v.begin(); it != v.end(); ++it) c.push_back(*it);
    if (c.size() != v.size()) incons += "iteration/size;";
    if (v.empty() != (v.size() == 0)) incons += "empty;";
    for (size_t i = 0; i < v.size(); ++i)
    {
        if (v[i] != c[i]) incons += "operator[];";
        if (v.data()[i] != c[i]) incons += "data();";
    }
    if (!c.empty())
    {
        if (v.front() != c.front()) incons += "front;";
        if (v.back() != c.back()) incons += "back;";
        if (size_t(v.end() - v.begin()) != c.size()) incons += "iterator-difference;";
    }
    return jl(c);
}

static std::string proj_queue(const Queue& q, std::string& incons)
{
    Queue c = q;                        // contents are observable only destructively: on a copy
    std::vector<long> v;
    size_t n = c.size();
    while (!c.empty()) { v.push_back(c.top()); c.pop(); }
    if (v.size() != n) incons += "queue size;";
    if (q.empty() != (n == 0)) incons += "queue empty;";
    return jl(v);
}

static bool is_bidx(long i) { for (long b : bidx) if (b == i) return true; return false; }

static std::string proj_bits(const Bits& b, std::string& incons)
{
    std::vector<long> on;
    for (long i : bidx) if (i < CT_BN && b.test(size_t(i))) on.push_back(i);
    // every other bit below BN moves together in the model: read them all
    int rest = -1;
    for (long i = 0; i < CT_BN; ++i)
    {
        if (is_bidx(i)) continue;
        int t = b.test(size_t(i)) ? 1 : 0;
        if (rest == -1) rest = t; else if (rest != t) { incons += "rest-bits-differ;"; break; }
    }
    if (b.size() != CT_BN) incons += "bitset size;";
    // the padding bits of the last word are visible through operator== only: bring a second bitset to the same abstract state
    Bits e;
    if (rest == 1) { e.set(); for (long i : bidx) if (i < CT_BN && !b.test(size_t(i))) e.reset(size_t(i)); }
    else { for (long i : bidx) if (i < CT_BN && b.test(size_t(i))) e.set(size_t(i)); }
    if (!(b == e)) incons += "padding-bits(operator==);";
    return std::string("{\"on\":") + jl(on) + ",\"rest\":" + (rest == 1 ? "true" : "false") + "}";
}

int main(int argc, char** argv)
{
    if (argc < 3) { fprintf(stderr, "usage: containers <jobs> <out>\n"); return 2; }
    std::ifstream in(argv[1]);
    FILE* out = fopen(argv[2], "w");
    if (!out) { perror("out"); return 2; }
    Vec vec; Queue q; Bits a, b;
    std::string kind, line;
    long lineno = 0;
    while (std::getline(in, line))
    {
        ++lineno;
        std::istringstream is(line);
        std::string tag; is >> tag;
        if (tag == "B") { long x; bidx.clear(); while (is >> x) bidx.push_back(x); continue; }
        if (tag == "R") { is >> kind; vec = Vec(); q = Queue(); a = Bits(); b = Bits(); fprintf(out, "{\"reset\":\"%s\"}\n", kind.c_str()); continue; }
        if (tag != "O") continue;
        std::string op; is >> op;
        std::vector<long> x; { long t; while (is >> t) x.push_back(t); }
        std::string res = "[]", incons, threw;
        auto okthrow = [&](auto&& f) { try { f(); res = "[\"ok\"]"; } catch (const std::runtime_error& e) { if (std::string(e.what()).rfind("bounds:", 0) == 0) threw = e.what(); res = "[\"throws\"]"; } };
        try
        {
            if (op == "vpush") vec.push_back(int(x[0]));
            else if (op == "vemplace") { int t = int(x[0]); vec.emplace_back(std::move(t)); }
            else if (op == "vpop") vec.pop_back();
            else if (op == "vclear") vec.clear();
            else if (op == "vset") vec[size_t(x[0])] = int(x[1]);
            else if (op == "verase") { auto it = vec.erase(vec.begin() + size_t(x[0]), vec.begin() + size_t(x[1])); res = "[" + std::to_string(long(it - vec.begin())) + "]"; }
            else if (op == "verasetail") { auto it = vec.erase(vec.end() - size_t(x[0]), vec.end()); res = "[" + std::to_string(long(it - vec.begin())) + "]"; }
            else if (op == "vfill") vec = Vec(int(x[0]), size_t(x[1]));
            else if (op == "qpush") okthrow([&] { q.push(int(x[0])); });
            else if (op == "qpop") okthrow([&] { q.pop(); });
            else if (op == "qtop") { try { int t = q.top(); res = "[\"ok\"," + std::to_string(t) + "]"; } catch (const std::runtime_error&) { res = "[\"throws\"]"; } }
            else if (op == "bset") okthrow([&] { a.set(size_t(x[0])); });
            else if (op == "bsetto") okthrow([&] { a.set(size_t(x[0]), x[1] != 0); });
            else if (op == "breset") okthrow([&] { a.reset(size_t(x[0])); });
            else if (op == "bflip") okthrow([&] { a.flip(size_t(x[0])); });
            else if (op == "btest") { try { bool t = a.test(size_t(x[0])); res = std::string("[\"ok\",") + (t ? "true" : "false") + "]"; } catch (const std::runtime_error&) { res = "[\"throws\"]"; } }
            else if (op == "bflipall") a.flip();
            else if (op == "bsetall") a.set();
            else if (op == "bresetall") a.reset();
            else if (op == "badd") a.add(b);
            else if (op == "beq") res = (a == b) ? "[true]" : "[false]";
            else if (op == "bswap") std::swap(a, b);
            else { fprintf(stderr, "unknown op %s (line %ld)\n", op.c_str(), lineno); return 2; }
        }
        catch (const std::exception& e) { threw = e.what(); }
        std::string o = "{\"line\":" + std::to_string(lineno) + ",\"op\":\"" + op + "\",\"res\":" + res;
        o += ",\"vec\":" + proj_vec(vec, incons) + ",\"qd\":" + proj_queue(q, incons);
        o += ",\"ba\":" + proj_bits(a, incons) + ",\"bb\":" + proj_bits(b, incons);
        o += ",\"incons\":\"" + incons + "\",\"threw\":\"" + threw + "\"}\n";
        fputs(o.c_str(), out);
    }
    fclose(out);
    return 0;
}
