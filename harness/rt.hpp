// Runtime support shared by every harness translation unit (host grammar, generated per-grammar TUs, regex driver).
// It only *observes* the real library: verbose lines through a user ErrorStream type, functor calls through user
// functors, buffer reads through a user buffer type, internals through the CTPG_VERIF friend hook.  Nothing here
// re-implements any part of ctpg.
#pragma once
#ifndef CTPG_VERIF
#error "harness must be built with -DCTPG_VERIF"
#endif
#include <ctpg/ctpg.hpp>
#include <sys/time.h>
#include <cstdio>
#include <cstdlib>
#include <cstring>
#include <memory>
#include <string>
#include <vector>
#include <stdexcept>
#include <sstream>
#include <fstream>
#include <iostream>
#include <pthread.h>
#include <unistd.h>
#include <csignal>

namespace vh
{
// ---------------------------------------------------------------- event log (one per thread)
struct Event
{
    std::string k;              // kind
    std::vector<long> a;        // integer arguments
    std::string s;              // raw text (verbose line)
    std::vector<std::vector<long>> lst; // list arguments (e.g. functor argument ids)
};

struct Log
{
    std::vector<Event> ev;
    std::string cur;            // line being assembled by capture_stream
    int next_id = 0;
    const char* base = nullptr; // start of the caller's buffer (for lexeme offsets)
    const std::string* text = nullptr;      // the text the caller put into the buffer
    size_t base_len = 0;
    size_t max_events = 2000000;
    bool overflow = false;
    long ctxmut = 0;
    // machine-stack positions at which the library called out (functors, stream): parse() is a loop, so the distance between
    // the shallowest and the deepest call-out of one parse does not depend on the input
    const char* sp_lo = nullptr; const char* sp_hi = nullptr;
    void note_sp(const char* p) { if (!sp_lo || p < sp_lo) sp_lo = p; if (!sp_hi || p > sp_hi) sp_hi = p; }
    void add(Event&& e) { char probe = 0; note_sp(&probe); if (ev.size() < max_events) ev.emplace_back(std::move(e)); else overflow = true; }
    std::vector<long> zdone;    // offsets at which a zero-length term was handed to its functor (= shifted)
    void reset() { ev.clear(); cur.clear(); next_id = 0; base = nullptr; text = nullptr; base_len = 0; overflow = false; ctxmut = 0; zdone.clear(); sp_lo = sp_hi = nullptr; }      // (object ids keep counting: objects may outlive a job)
};
inline thread_local Log tl_log;

struct bounds_error : std::runtime_error { using std::runtime_error::runtime_error; };

inline void jstr(std::string& o, const std::string& s)
{
    o += '"';
    char b[8];
    for (unsigned char c : s)
    {
        if (c == '"') o += "\\\"";
        else if (c == '\\') o += "\\\\";
        else if (c < 0x20 || c >= 0x7f) { snprintf(b, sizeof b, "\\u%04x", c); o += b; }
        else o += char(c);
    }
    o += '"';
}

inline void jevents(std::string& o, const std::vector<Event>& ev)
{
    o += '[';
    bool first = true;
    for (const auto& e : ev)
    {
        if (!first) o += ',';
        first = false;
        o += '[';
        jstr(o, e.k);
        if (e.k == "L" || !e.s.empty()) { o += ','; jstr(o, e.s); }
        for (long v : e.a) { o += ','; o += std::to_string(v); }
        for (const auto& l : e.lst)
        {
            o += ",[";
            for (size_t i = 0; i < l.size(); ++i) { if (i) o += ','; o += std::to_string(l[i]); }
            o += ']';
        }
        o += ']';
    }
    o += ']';
}

// ---------------------------------------------------------------- ErrorStream that records complete lines
// Every line the library writes ends with a string literal whose last character is '\n'; lexemes and the offending
// character of "Unexpected character" are not literals, so a '\n' inside them does not end the record.
struct capture_stream
{
    template<typename T>
    capture_stream& operator<<(const T& v)
    {
        auto& L = tl_log;
        if constexpr (std::is_array_v<T>)
        {
            constexpr size_t N = std::extent_v<T>;
            L.cur.append(v, N - 1);
            if (N >= 2 && v[N - 2] == '\n')
            {
                Event e; e.k = "L"; e.s = L.cur.substr(0, L.cur.size() - 1);
                L.add(std::move(e));
                L.cur.clear();
            }
        }
        else if constexpr (std::is_same_v<T, const char*> || std::is_same_v<T, char*>) L.cur += v;
        else if constexpr (std::is_same_v<T, char>) L.cur += v;
        else if constexpr (std::is_same_v<T, std::string_view>) L.cur.append(v.data(), v.size());
        else if constexpr (std::is_same_v<T, ctpg::source_point>)
            L.cur += "[" + std::to_string(v.line) + ":" + std::to_string(v.column) + "]";
        else if constexpr (std::is_arithmetic_v<T>) L.cur += std::to_string(v);
        else { std::ostringstream os; os << v; L.cur += os.str(); }
        return *this;
    }
};

// ---------------------------------------------------------------- value type: derivation tree nodes
struct Tree
{
    int kind = 0;   // 0 term leaf, 1 rule node (functor), 2 rule node (default construction), 3 special
    int sym = -1;   // term index or rule number
    int id = -1;
    long off = -1, len = -1;
    long line = -1, col = -1;
    std::vector<std::shared_ptr<Tree>> ch;
};

// Lifecycle tracking (C14): with VERIF_TRACK set every special member of the value type is an event carrying object ids.
inline const bool g_track = getenv("VERIF_TRACK") != nullptr;
inline thread_local long tl_next_oid = 0;
inline void vlog(const char* k, long a, long b) { Event e; e.k = k; e.a = { a, b }; tl_log.add(std::move(e)); }

// a value type whose move operations MAY throw (as far as the type system knows) is still a value type that can be moved:
// translation units built with VH_MOVE_MAY_THROW use such a Node (std::move_if_noexcept and friends would copy it)
#ifdef VH_MOVE_MAY_THROW
#define VH_NOEXCEPT
#else
#define VH_NOEXCEPT noexcept
#endif
struct Node2;
struct Node
{
    std::shared_ptr<Tree> t;
    long oid = -1;
    long tid() const { return t ? long(t->id) : -1; }
    Node() { if (g_track) { oid = tl_next_oid++; vlog("v_new", oid, -1); } }
    explicit Node(std::shared_ptr<Tree> tr) : t(std::move(tr)) { if (g_track) { oid = tl_next_oid++; vlog("v_new", oid, tid()); } }
    Node(const Node& o) : t(o.t) { if (g_track) { oid = tl_next_oid++; vlog("v_copy", o.oid, oid); } }
    Node(Node&& o) VH_NOEXCEPT : t(std::move(o.t)) { if (g_track) { oid = tl_next_oid++; vlog("v_move", o.oid, oid); } }
    Node& operator=(const Node& o) { t = o.t; if (g_track) vlog("v_cassign", o.oid, oid); return *this; }
#ifndef VH_NO_MOVE_ASSIGN
    Node& operator=(Node&& o) VH_NOEXCEPT { t = std::move(o.t); if (g_track) vlog("v_massign", o.oid, oid); return *this; }
#endif      // (VH_NO_MOVE_ASSIGN: a type that can be move CONSTRUCTED but only copy ASSIGNED - assigning to it duplicates)
    ~Node() { if (g_track) vlog("v_dtor", oid, -1); }
    // rules WITHOUT a functor construct the left-side value from the right-side values: LValueType(values...).
    // The variadic constructor observes that call (a unit rule over a nonterminal is a plain move and has no event);
    // the initializer_list constructor exists only to be observed if it is ever chosen instead.
    template<typename T> struct is_val : std::bool_constant<std::is_same_v<std::decay_t<T>, Node> || std::is_same_v<std::decay_t<T>, Node2> || std::is_same_v<std::decay_t<T>, ctpg::no_type>
                                                         || std::is_same_v<std::decay_t<T>, ctpg::term_value<Node>> || std::is_same_v<std::decay_t<T>, ctpg::term_value<ctpg::no_type>>> {};
    template<typename A0, typename... A,
             typename = std::enable_if_t<(is_val<A0>::value && ... && is_val<A>::value)
                                         && !(sizeof...(A) == 0 && !std::is_same_v<std::decay_t<A0>, ctpg::term_value<Node>> && !std::is_same_v<std::decay_t<A0>, ctpg::term_value<ctpg::no_type>>)>>
    explicit Node(A0&& a0, A&&... a);      // explicit: never a candidate when the library converts a value INTO its variant
    Node(std::initializer_list<Node> il);
};

// a second value type, CONSTRUCTIBLE FROM the first one: rules whose left side is an nterm<Node2> return a Node from their
// functor and rely on the library converting it to the left side's type (not to whatever alternative of its variant fits best)
struct Node2 : Node
{
    Node2() = default;
    Node2(Node&& n) : Node(std::move(n)) {}
    Node2(const Node& n) : Node(n) {}        // (exists to be OBSERVED: the library converts the functor's rvalue result - a move)
    Node2(const Node2&) = default;
    Node2(Node2&&) = default;
    Node2& operator=(const Node2&) = default;
    Node2& operator=(Node2&&) = default;
};

inline void jtree(std::string& o, const std::shared_ptr<Tree>& t)
{
    if (!t) { o += "null"; return; }
    o += '[';
    o += std::to_string(t->id); o += ','; o += std::to_string(t->kind); o += ','; o += std::to_string(t->sym);
    o += ','; o += std::to_string(t->off); o += ','; o += std::to_string(t->len);
    o += ','; o += std::to_string(t->line); o += ','; o += std::to_string(t->col);
    o += ",[";
    for (size_t i = 0; i < t->ch.size(); ++i) { if (i) o += ','; jtree(o, t->ch[i]); }
    o += "]]";
}

// term functor: receives the lexeme; logs where in the caller's buffer it points
struct TermF
{
    int t;
    Node operator()(std::string_view sv) const
    {
        auto& L = tl_log;
        auto tr = std::make_shared<Tree>();
        tr->kind = 0; tr->sym = t; tr->id = L.next_id++;
        long off = -1;
        if (L.base && sv.data() >= L.base && sv.data() <= L.base + L.base_len) off = long(sv.data() - L.base);
        // the lexeme is a slice of the text the CALLER handed over: same bytes (a view into the storage of another object -
        // a buffer this one was copied or moved from - may sit at a plausible offset and still show something else)
        if (off >= 0 && L.text && (size_t(off) + sv.size() > L.text->size() || L.text->compare(size_t(off), sv.size(), sv.data(), sv.size()) != 0)) off = -2;
        tr->off = off; tr->len = long(sv.size());
        if (sv.size() == 0) L.zdone.push_back(off);
        Event e; e.k = "tval"; e.a = { t, off, long(sv.size()), tr->id };
        L.add(std::move(e));
        return Node(tr);
    }
};

// the same for a term whose VALUE TYPE is no_type (typed_term(char_term('+'), create<no_type>{}) in the readme's idiom):
// the call is observed, the value carries nothing
struct TermFN
{
    int t;
    ctpg::no_type operator()(std::string_view sv) const { TermF{t}(sv); return {}; }
};

// argument adaptors: what a rule functor may receive
inline void take_arg(Tree& parent, std::vector<long>& ids, std::vector<long>& lines, std::vector<long>& cols, Node&& n)
{
    if (g_track) vlog("v_take", n.oid, n.tid());       // the functor consumes the value held by this object
    ids.push_back(n.t ? n.t->id : -1); lines.push_back(-1); cols.push_back(-1);
    parent.ch.push_back(std::move(n.t));
}
inline void take_arg(Tree& parent, std::vector<long>& ids, std::vector<long>& lines, std::vector<long>& cols, Node&& n);
inline void take_arg(Tree& parent, std::vector<long>& ids, std::vector<long>& lines, std::vector<long>& cols, Node2&& n) { take_arg(parent, ids, lines, cols, static_cast<Node&&>(n)); }
inline void take_arg(Tree& parent, std::vector<long>& ids, std::vector<long>& lines, std::vector<long>& cols, ctpg::term_value<Node>&& tv)
{
    const Node& n = tv.get_value();                     // (term_value offers no way to move its value out: read only)
    if (g_track) vlog("v_take", n.oid, n.tid());
    std::shared_ptr<Tree> tr = n.t;
    if (tr) { tr->line = tv.get_line(); tr->col = tv.get_column(); }
    ids.push_back(tr ? tr->id : -1); lines.push_back(tv.get_line()); cols.push_back(tv.get_column());
    parent.ch.push_back(std::move(tr));
}
inline void take_arg(Tree& parent, std::vector<long>& ids, std::vector<long>& lines, std::vector<long>& cols, ctpg::no_type&&)
{
    ids.push_back(-2); lines.push_back(-1); cols.push_back(-1);
    parent.ch.push_back(nullptr);
}
inline void take_arg(Tree& parent, std::vector<long>& ids, std::vector<long>& lines, std::vector<long>& cols, ctpg::term_value<ctpg::no_type>&& tv)
{
    ids.push_back(-2); lines.push_back(tv.get_line()); cols.push_back(tv.get_column());      // a value-less term: no tree, but a source point
    parent.ch.push_back(nullptr);
}
inline void take_arg(Tree& parent, std::vector<long>& ids, std::vector<long>& lines, std::vector<long>& cols, ctpg::term_value<char>&& tv)
{
    ids.push_back(-3); lines.push_back(tv.get_line()); cols.push_back(tv.get_column());
    auto tr = std::make_shared<Tree>(); tr->kind = 3; tr->sym = (unsigned char)tv.get_value(); tr->line = tv.get_line(); tr->col = tv.get_column();
    parent.ch.push_back(tr);
}
inline void take_arg(Tree& parent, std::vector<long>& ids, std::vector<long>& lines, std::vector<long>& cols, ctpg::term_value<std::string_view>&& tv)
{
    auto& L = tl_log;
    long off = -1;
    std::string_view sv = tv.get_value();
    if (L.base && sv.data() >= L.base && sv.data() <= L.base + L.base_len) off = long(sv.data() - L.base);
    ids.push_back(-3); lines.push_back(tv.get_line()); cols.push_back(tv.get_column());
    auto tr = std::make_shared<Tree>(); tr->kind = 3; tr->sym = -1; tr->off = off; tr->len = long(sv.size()); tr->line = tv.get_line(); tr->col = tv.get_column();
    parent.ch.push_back(tr);
}

template<typename A0, typename... A, typename>
Node::Node(A0&& a0, A&&... a)
{
    auto& L = tl_log;
    auto tr = std::make_shared<Tree>();
    tr->kind = 2; tr->sym = -1;
    std::vector<long> ids, lines, cols;
    take_arg(*tr, ids, lines, cols, std::move(a0));
    (take_arg(*tr, ids, lines, cols, std::move(a)), ...);
    tr->id = L.next_id++;
    long lv = (std::is_lvalue_reference_v<A0> ? 1 : 0) + (0 + ... + (std::is_lvalue_reference_v<A> ? 1 : 0));
    Event e; e.k = "dcall"; e.a = { tr->id, lv }; e.lst = { ids, lines, cols };
    L.add(std::move(e));
    t = tr;
    if (g_track) { oid = tl_next_oid++; vlog("v_new", oid, tid()); }
}
inline Node::Node(std::initializer_list<Node> il)
{
    if (g_track) { oid = tl_next_oid++; vlog("v_new", oid, -1); }
    Event e; e.k = "ilist"; e.a = { long(il.size()) };
    tl_log.add(std::move(e));
}

// rule functor: logs the call with the ids of its arguments in order, builds the tree node
struct RuleF
{
    int r;
    // the library keeps its own copy of a rule's functor and calls it through a const reference: this overload can only be
    // chosen if the library calls the CALLER'S object (or a non-const copy) - observed as a `mutcall` event, and a data
    // race under ThreadSanitizer when several threads parse
    long ncalls = 0;
    template<typename... A>
    Node operator()(A&&... a)
    {
        ++ncalls;
        { Event e; e.k = "mutcall"; e.a = { r }; tl_log.add(std::move(e)); }
        return std::as_const(*this)(std::forward<A>(a)...);
    }
    template<typename... A>
    Node operator()(A&&... a) const
    {
        auto& L = tl_log;
        auto tr = std::make_shared<Tree>();
        tr->kind = 1; tr->sym = r;
        std::vector<long> ids, lines, cols;
        (take_arg(*tr, ids, lines, cols, std::move(a)), ...);
        tr->id = L.next_id++;
        long lv = (0 + ... + (std::is_lvalue_reference_v<A> ? 1 : 0));     // values must arrive as rvalues (movable)
        Event e; e.k = "call"; e.a = { r, tr->id, lv }; e.lst = { ids, lines, cols };
        L.add(std::move(e));
        return Node(tr);
    }
};

// the same functor for a VALUE-LESS left side (nterm<no_type>): the call is observed like any other, the result is no_type
struct RuleFN
{
    int r;
    template<typename... A>
    ctpg::no_type operator()(A&&... a) const { const RuleF f{r}; f(std::forward<A>(a)...); return {}; }
};

// ---------------------------------------------------------------- a user buffer whose iterators observe every access
// `slack` = number of bytes after the text that may legitimately be read (1 for NUL-terminated pattern literals,
// 0 for caller buffers).  Reads / iterator positions outside [0, len + slack) / [0, len] are logged as events.
struct checked_buffer
{
    std::string data;
    size_t len;
    size_t slack;
    explicit checked_buffer(const std::string& s, size_t slack = 0) : data(s), len(s.size()), slack(slack) { data.push_back('\0'); }

    struct iterator
    {
        const checked_buffer* b = nullptr;
        long i = 0;
        char operator*() const
        {
            if (i < 0 || size_t(i) >= b->len + b->slack) { Event e; e.k = "oobread"; e.a = { i, long(b->len) }; tl_log.add(std::move(e)); }
            return (i >= 0 && size_t(i) < b->data.size()) ? b->data[size_t(i)] : char(0);
        }
        static iterator mk(const checked_buffer* b, long i)
        {
            if (i < 0 || size_t(i) > b->len) { Event e; e.k = "oobiter"; e.a = { i, long(b->len) }; tl_log.add(std::move(e)); }
            return iterator{ b, i };
        }
        iterator& operator++() { *this = mk(b, i + 1); return *this; }
        iterator operator++(int) { iterator o(*this); *this = mk(b, i + 1); return o; }
        bool operator==(const iterator& o) const { return i == o.i; }
        bool operator!=(const iterator& o) const { return i != o.i; }
        iterator& operator+=(size_t n) { *this = mk(b, i + long(n)); return *this; }
        iterator operator+(size_t n) const { return mk(b, i + long(n)); }
    };
    iterator begin() const { return iterator{ this, 0 }; }
    iterator end() const { return iterator{ this, long(len) }; }
    std::string_view get_view(iterator s, iterator e) const
    {
        if (s.i < 0 || e.i < s.i || size_t(e.i) > len) { Event ev; ev.k = "oobview"; ev.a = { s.i, e.i, long(len) }; tl_log.add(std::move(ev)); return std::string_view(); }
        return std::string_view(data.data() + s.i, size_t(e.i - s.i));
    }
};

// ---------------------------------------------------------------- a custom lexer whose answers are dictated by the input
// byte b in 0x40..0x7f answers (term index, length) = ((b - 0x40) / 4, (b - 0x40) % 4 + 1); any other byte, an index
// that is not a term, or a length beyond the end of the input = "no term" (default recognized_term).  Every call is
// logged with the offset it was asked at and the source point it was given.
// the stream object the CALLER handed to parse() (null when the call has no stream argument): a custom lexer is handed that
// very stream, verbose or not - what it writes there (warnings, reasons) is the caller's to read
inline thread_local const void* tl_stream_addr = nullptr;
template<int NTerms>
struct byte_lexer
{
    // working data of ONE call, kept in members as a hand-written scanner keeps its cursor: written, then read.  A lexer
    // object that several calls share (threads!) shows as a data race under ThreadSanitizer and as `lexshared` events
    long w_avail = 0, w_guard = 0;
    template<typename Iterator, typename ErrorStream>
    ctpg::recognized_term match(ctpg::match_options, ctpg::source_point sp, Iterator start, Iterator end, ErrorStream& es)
    {
        auto& L = tl_log;
        if (tl_stream_addr && static_cast<const void*>(std::addressof(es)) != tl_stream_addr) { Event e; e.k = "lexstream_foreign"; L.add(std::move(e)); }
        w_avail = 0; w_guard = reinterpret_cast<long>(&L);
        for (Iterator i = start; !(i == end); ++i) ++w_avail;
        long avail = w_avail;
        if (w_guard != reinterpret_cast<long>(&L)) { Event e; e.k = "lexshared"; L.add(std::move(e)); }
        long off = long(L.base_len) - avail;
        { Event e; e.k = "lexcall"; e.a = { off, long(sp.line), long(sp.column), avail }; L.add(std::move(e)); }
        if (avail == 0) { Event e; e.k = "lexcall_at_end"; L.add(std::move(e)); return ctpg::recognized_term{}; }
        unsigned char b = (unsigned char)*start;
        if (b >= 0x80 && b < 0x90)
        {
            // a virtual term: length 0 until it has been shifted at this offset, then the byte itself is that term
            if (int(b - 0x80) >= NTerms) return ctpg::recognized_term{};
            bool done = false;
            for (long z : L.zdone) if (z == off) done = true;
            return ctpg::recognized_term(ctpg::size16_t(b - 0x80), size_t(done ? 1 : 0));
        }
        if (b >= 0x90 && b < 0xa0)
        {
            // a blob: the term extends to the end of the input (one lexeme of any length)
            if (int(b - 0x90) >= NTerms) return ctpg::recognized_term{};
            return ctpg::recognized_term(ctpg::size16_t(b - 0x90), size_t(avail));
        }
        if (b < 0x40 || b > 0x7f) return ctpg::recognized_term{};
        int idx = (b - 0x40) / 4, len = (b - 0x40) % 4 + 1;
        if (idx >= NTerms || len > avail) return ctpg::recognized_term{};
        if (len % 2 == 0)
        {
            // (the answer is "a simple struct with two members": filled in by assignment as well as through the constructor)
            ctpg::recognized_term r;
            r.term_idx = ctpg::size16_t(idx); r.len = size_t(len);
            return r;
        }
        return ctpg::recognized_term(ctpg::size16_t(idx), size_t(len));
    }
};

// ---------------------------------------------------------------- contexts (C13)
// (`last`: a place in the caller's object where a functor may keep its result and hand the library a REFERENCE to it -
//  the library may read the referent, the object stays the caller's)
struct Ctx { int mut = 0; int tag = 7; std::optional<Node> last; int refs = 0; };
struct CtxMO { int mut = 0; int tag = 9; std::optional<Node> last; int refs = 0; CtxMO() = default; CtxMO(const CtxMO&) = delete; CtxMO& operator=(const CtxMO&) = delete; CtxMO(CtxMO&&) = default; };
// a context type that overloads unary & (a handle / proxy class): the library must never find the caller's object by
// writing &ctx - the functors would receive whatever that operator points at
struct CtxAmp { int mut = 0; int tag = 11; std::optional<Node> last; int refs = 0; CtxAmp* operator&(); const CtxAmp* operator&() const; };
inline CtxAmp& amp_decoy() { static thread_local CtxAmp d; return d; }
inline CtxAmp* CtxAmp::operator&() { return std::addressof(amp_decoy()); }
inline const CtxAmp* CtxAmp::operator&() const { return std::addressof(amp_decoy()); }
// a SMALL, trivially copyable context (two ints - it fits a register pair): still the caller's object, never a copy
struct CtxSmall { int mut = 0; int tag = 13; };
static_assert(std::is_trivially_copy_constructible_v<CtxSmall> && sizeof(CtxSmall) <= 2 * sizeof(void*), "CtxSmall must be small and trivially copyable");
inline thread_local const void* tl_ctx_addr = nullptr;

// contextual rule functor (attached with >>=): logs which object it was handed (identity, constness), mutates it if allowed
template<typename T> struct is_ctx : std::bool_constant<std::is_same_v<std::decay_t<T>, Ctx> || std::is_same_v<std::decay_t<T>, CtxMO> || std::is_same_v<std::decay_t<T>, CtxAmp> || std::is_same_v<std::decay_t<T>, CtxSmall> || std::is_same_v<std::decay_t<T>, ctpg::no_type>> {};
// a context object handed to a functor that was attached with >= (it must never get one): observed as an argument -9
template<typename C, std::enable_if_t<is_ctx<C>::value && !std::is_same_v<std::decay_t<C>, ctpg::no_type>, int> = 0>
inline void take_arg(Tree& parent, std::vector<long>& ids, std::vector<long>& lines, std::vector<long>& cols, C&&)
{
    ids.push_back(-9); lines.push_back(-1); cols.push_back(-1);
    parent.ch.push_back(nullptr);
}
template<typename... X> struct first_is_ctx : std::false_type {};
template<typename X0, typename... X> struct first_is_ctx<X0, X...> : is_ctx<X0> {};
struct RuleFC
{
    int r;
    // called WITHOUT a context although attached with >>= : logged as a contextual call that saw no caller object
    template<typename... A, std::enable_if_t<!first_is_ctx<A...>::value, int> = 0>
    Node operator()(A&&... a) const
    {
        auto& L = tl_log;
        auto tr = std::make_shared<Tree>();
        tr->kind = 1; tr->sym = r;
        std::vector<long> ids, lines, cols;
        (take_arg(*tr, ids, lines, cols, std::move(a)), ...);
        tr->id = L.next_id++;
        long lv = (0 + ... + (std::is_lvalue_reference_v<A> ? 1 : 0));
        Event e; e.k = "ccall"; e.a = { r, tr->id, -1, 0, lv }; e.lst = { ids, lines, cols };
        L.add(std::move(e));
        return Node(tr);
    }
    template<typename C, typename... A, std::enable_if_t<is_ctx<C>::value, int> = 0>
    Node operator()(C&& ctx, A&&... a) const
    {
        auto& L = tl_log;
        auto tr = std::make_shared<Tree>();
        tr->kind = 1; tr->sym = r;
        std::vector<long> ids, lines, cols;
        (take_arg(*tr, ids, lines, cols, std::move(a)), ...);
        tr->id = L.next_id++;
        constexpr bool is_const = std::is_const_v<std::remove_reference_t<C>>;
        // (parse() without a context hands contextual functors a no_type: there is no caller object to compare with)
        long same = std::is_same_v<std::decay_t<C>, ctpg::no_type> ? 1 : (static_cast<const void*>(std::addressof(ctx)) == tl_ctx_addr ? 1 : 0);
        if constexpr (!is_const && !std::is_same_v<std::decay_t<C>, ctpg::no_type>) ctx.mut++;
        long lv = (0 + ... + (std::is_lvalue_reference_v<A> ? 1 : 0));
        Event e; e.k = "ccall"; e.a = { r, tr->id, same, is_const ? 1 : 0, lv }; e.lst = { ids, lines, cols };
        L.add(std::move(e));
        return Node(tr);
    }
};
struct RuleFCN
{
    int r;
    template<typename... A>
    ctpg::no_type operator()(A&&... a) const { const RuleFC f{r}; f(std::forward<A>(a)...); return {}; }
};
// a contextual functor that KEEPS its result in the caller's object and returns an lvalue reference to it (a symbol table
// entry, an accumulated list): what the caller finds in the object afterwards must be what the functor left there
struct RuleFCR
{
    int r;
    template<typename... A, std::enable_if_t<!first_is_ctx<A...>::value, int> = 0>
    Node operator()(A&&... a) const { const RuleFC f{r}; return f(std::forward<A>(a)...); }
    template<typename C, typename... A, std::enable_if_t<is_ctx<C>::value, int> = 0>
    decltype(auto) operator()(C&& ctx, A&&... a) const
    {
        const RuleFC f{r};
        if constexpr (!std::is_const_v<std::remove_reference_t<C>> && !std::is_same_v<std::decay_t<C>, ctpg::no_type> && !std::is_same_v<std::decay_t<C>, CtxSmall>)
        {
            Node n = f(ctx, std::forward<A>(a)...);
            ctx.last.emplace(std::move(n)); ctx.refs++;
            return static_cast<Node&>(*ctx.last);
        }
        else
            return f(std::forward<C>(ctx), std::forward<A>(a)...);
    }
};
// what the caller reads in its context after the call: the mutation count, negative when a kept result is gone
template<typename C> long ctx_after(const C& c) { return (c.refs && (!c.last || !c.last->t)) ? -1000 - c.mut : c.mut; }
inline long ctx_after(const CtxSmall& c) { return c.mut; }

// ---------------------------------------------------------------- job / trace plumbing
struct Job
{
    std::string id;
    int buf = 0;        // 0 string_view_buffer, 1 string_buffer, 2 cstring_buffer, 3 checked buffer
    int stream = 0;     // 0 capture_stream, 1 no stream overload, 2 std::ostream
    bool verbose = true, ws = true, nl = true;
    int ctx = 0;        // 0 parse(); 1 lvalue; 2 const lvalue; 3 rvalue; 4 move-only lvalue; 5 move-only rvalue
    std::string bytes;
};

inline int hexv(char c) { return c <= '9' ? c - '0' : (c | 32) - 'a' + 10; }
inline std::string unhex(const std::string& h)
{
    std::string r;
    if (h == "-") return r;
    for (size_t i = 0; i + 1 < h.size(); i += 2) r += char(hexv(h[i]) * 16 + hexv(h[i + 1]));
    return r;
}

inline std::vector<Job> read_jobs(const char* path)
{
    std::vector<Job> jobs;
    std::ifstream in(path);
    std::string line;
    while (std::getline(in, line))
    {
        if (line.empty() || line[0] == '#') continue;
        std::istringstream is(line);
        Job j; std::string hex; int v, w, n;
        is >> j.id >> j.buf >> j.stream >> v >> w >> n >> hex;
        if (!(is >> j.ctx)) j.ctx = 0;
        j.verbose = v; j.ws = w; j.nl = n; j.bytes = unhex(hex);
        jobs.push_back(j);
    }
    return jobs;
}

inline void jbytes(std::string& o, const std::string& b)
{
    o += '[';
    for (size_t i = 0; i < b.size(); ++i) { if (i) o += ','; o += std::to_string((unsigned char)b[i]); }
    o += ']';
}

// watchdog: a parse that does not return within the budget ends the process with exit code 124 after naming the job
inline char g_wd_job[256];
inline void watchdog_handler(int)
{
    const char msg[] = "VERIF-TIMEOUT job=";
    (void)!write(2, msg, sizeof msg - 1);
    (void)!write(2, g_wd_job, strlen(g_wd_job));
    (void)!write(2, "\n", 1);
    _exit(124);
}
inline void watchdog_arm(const char* job)
{
    strncpy(g_wd_job, job, sizeof g_wd_job - 1);
    signal(SIGALRM, watchdog_handler);
    // CPU time of this process, not wall-clock time: a parse that does not return burns CPU; a machine busy with
    // sixteen model checkers must not make a finished-in-microseconds parse look like a hang
    const char* t = getenv("VERIF_JOB_TIMEOUT");
    struct itimerval tv = {};
    tv.it_value.tv_sec = t ? atoi(t) : 20;
    signal(SIGPROF, watchdog_handler);
    setitimer(ITIMER_PROF, &tv, nullptr);
}
inline void watchdog_disarm() { struct itimerval tv = {}; setitimer(ITIMER_PROF, &tv, nullptr); }

template<typename F>
void run_big_stack(F&& f, size_t bytes = size_t(2) << 30)
{
    pthread_attr_t at; pthread_attr_init(&at); pthread_attr_setstacksize(&at, bytes);
    pthread_t th;
    auto tramp = [](void* p) -> void* { (*static_cast<F*>(p))(); return nullptr; };
    if (pthread_create(&th, &at, tramp, &f) != 0) { perror("pthread_create"); exit(3); }
    pthread_join(th, nullptr);
}

// runs one parse of `p` and appends a trace record (one JSON line) to `out`
#ifdef VH_CSTR
template<size_t N, typename F>
void cstr_one(const std::string& bytes, F&& f)
{
    char arr[N] = {};
    for (size_t i = 0; i + 1 < N; ++i) arr[i] = bytes[i];
    ctpg::buffers::cstring_buffer<N> b(arr);
    f(b);
}
template<size_t... I, typename F>
bool cstr_dispatch(const std::string& bytes, std::index_sequence<I...>, F&& f)
{
    bool done = false;
    ((bytes.size() == I ? (cstr_one<I + 1>(bytes, f), done = true) : false), ...);
    return done;
}
#endif

template<typename P>
std::optional<Node> parse_with(const P& p, const Job& j, std::string& stream_text)
{
    using namespace ctpg;
    auto& L = tl_log;
    parse_options o; o.set_verbose(j.verbose).set_skip_whitespace(j.ws).set_skip_newline(j.nl);
    auto go = [&](const auto& buf) -> std::optional<Node>
    {
        std::string_view v0 = buf.get_view(buf.begin(), buf.begin());
        L.base = v0.data(); L.base_len = j.bytes.size(); L.text = &j.bytes;
        tl_stream_addr = nullptr;
        if (j.stream == 1)
        {
            if (j.verbose || !j.ws || !j.nl)
            {
                utils::no_stream ns;
                if (j.ctx == 1) { Ctx c; tl_ctx_addr = &c; auto r = p.context_parse(c, o, buf, ns); L.ctxmut = ctx_after(c); return r; }
                if (j.ctx == 2) { const Ctx c; tl_ctx_addr = &c; auto r = p.context_parse(c, o, buf, ns); L.ctxmut = ctx_after(c); return r; }
                return p.parse(o, buf, ns);
            }
            if (j.ctx == 1) { Ctx c; tl_ctx_addr = &c; auto r = p.context_parse(c, buf); L.ctxmut = ctx_after(c); return r; }      // context_parse(ctx, buffer)
            if (j.ctx == 2) { const Ctx c; tl_ctx_addr = &c; auto r = p.context_parse(c, buf); L.ctxmut = ctx_after(c); return r; }
            if (j.ctx == 6) { CtxAmp c; tl_ctx_addr = std::addressof(c); auto r = p.context_parse(c, buf); L.ctxmut = ctx_after(c) + 1000 * amp_decoy().mut; amp_decoy().mut = 0; return r; }
            return p.parse(buf);
        }
        if (j.stream == 2)
        {
            // ONE std::ostream per thread, reused by all its calls (as a caller's log stream is): formatting state a call
            // leaves behind would show in the text of later calls, and is reported directly as a `streamstate` event
            static thread_local std::ostringstream os;
            os.str(std::string()); os.clear();
            const auto f0 = os.flags(); const auto w0 = os.width(); const auto p0 = os.precision(); const auto c0 = os.fill();
            tl_stream_addr = &os;
            auto r = p.parse(o, buf, os);
            stream_text = os.str();
            if (os.flags() != f0 || os.width() != w0 || os.precision() != p0 || os.fill() != c0)
            {
                Event e; e.k = "streamstate"; e.a = { long(f0), long(os.flags()), long(w0), long(os.width()), long(p0), long(os.precision()) };
                L.add(std::move(e));
            }
            return r;
        }
        capture_stream cs;
        tl_stream_addr = &cs;
        // with default options the SHORT overloads are called (parse(buffer, stream), context_parse(ctx, buffer, stream)):
        // they forward to the long ones, and that forwarding is part of what is validated
        const bool dflt_opts = !j.verbose && j.ws && j.nl;
        if (j.ctx == 0) return dflt_opts ? p.parse(buf, cs) : p.parse(o, buf, cs);
        if (j.ctx == 1) { Ctx c; tl_ctx_addr = &c; auto r = dflt_opts ? p.context_parse(c, buf, cs) : p.context_parse(c, o, buf, cs); L.ctxmut = ctx_after(c); return r; }
        if (j.ctx == 2) { const Ctx c; tl_ctx_addr = &c; auto r = dflt_opts ? p.context_parse(c, buf, cs) : p.context_parse(c, o, buf, cs); L.ctxmut = ctx_after(c); return r; }
        if (j.ctx == 3) { Ctx c; tl_ctx_addr = &c; auto r = dflt_opts ? p.context_parse(std::move(c), buf, cs) : p.context_parse(std::move(c), o, buf, cs); L.ctxmut = ctx_after(c); return r; }
        if (j.ctx == 4) { CtxMO c; tl_ctx_addr = &c; auto r = dflt_opts ? p.context_parse(c, buf, cs) : p.context_parse(c, o, buf, cs); L.ctxmut = ctx_after(c); return r; }
        if (j.ctx == 6) { CtxAmp c; tl_ctx_addr = std::addressof(c); auto r = dflt_opts ? p.context_parse(c, buf, cs) : p.context_parse(c, o, buf, cs); L.ctxmut = ctx_after(c) + 1000 * amp_decoy().mut; amp_decoy().mut = 0; return r; }
        if (j.ctx == 7) { const CtxSmall c; tl_ctx_addr = &c; auto r = dflt_opts ? p.context_parse(c, buf, cs) : p.context_parse(c, o, buf, cs); L.ctxmut = ctx_after(c); return r; }
        if (j.ctx == 8) { CtxSmall c; tl_ctx_addr = &c; auto r = dflt_opts ? p.context_parse(std::move(c), buf, cs) : p.context_parse(std::move(c), o, buf, cs); L.ctxmut = ctx_after(c); return r; }
        { CtxMO c; tl_ctx_addr = &c; auto r = dflt_opts ? p.context_parse(std::move(c), buf, cs) : p.context_parse(std::move(c), o, buf, cs); L.ctxmut = ctx_after(c); return r; }
    };
    if (j.buf == 1)
    {
        // both constructors of string_buffer: from a std::string, and (texts without NUL, odd length) from a C string
        if (j.bytes.find('\0') == std::string::npos && j.bytes.size() % 2 == 1) { buffers::string_buffer b(j.bytes.c_str()); return go(b); }
        // ... and buffers that were MOVED or COPIED before use (kept in a container, returned from a function): the source is
        // overwritten / destroyed, the buffer parsed is the only holder of the text
        const size_t how = (j.bytes.size() + j.id.size()) % 4;
        if (how == 2)
        {
            buffers::string_buffer b0{std::string(j.bytes)};
            buffers::string_buffer b(std::move(b0));
            b0 = buffers::string_buffer(std::string(j.bytes.size() + 1, char(0x7f)));
            return go(b);
        }
        if (how == 3)
        {
            auto src = std::make_unique<buffers::string_buffer>(std::string(j.bytes));
            buffers::string_buffer b(*src);
            src.reset();
            std::string junk(j.bytes.size() + 1, char(0x7f));
            auto r = go(b); (void)junk;
            return r;
        }
        buffers::string_buffer b{std::string(j.bytes)}; return go(b);
    }
    if (j.buf == 3) { checked_buffer b(j.bytes, 0); return go(b); }
#ifdef VH_CSTR
    if (j.buf == 2)
    {
        // cstring_buffer<N>: the size is a template argument, so run-time inputs are dispatched over N = len + 1
        std::optional<Node> r;
        bool done = cstr_dispatch(j.bytes, std::make_index_sequence<VH_CSTR>{}, [&](const auto& b) { r = go(b); });
        if (!done) throw std::runtime_error("harness: input too long for the cstring_buffer dispatch");
        return r;
    }
#endif
    buffers::string_view_buffer b{std::string_view(j.bytes)};
    return go(b);
}

template<typename P>
void run_job_impl(const P& p, const Job& j, const std::string& gid, std::string& out, bool wd)
{
    auto& L = tl_log;
    L.reset();
    std::string stream_text, threw;
    std::optional<Node> res;
    if (wd) watchdog_arm(j.id.c_str());
    try { res = parse_with(p, j, stream_text); }
    catch (const bounds_error& e) { threw = std::string("bounds:") + e.what(); }
    catch (const std::exception& e) { threw = std::string("exception:") + e.what(); }
    if (wd) watchdog_disarm();
    out += "{\"id\":"; jstr(out, j.id);
    out += ",\"g\":"; jstr(out, gid);
    out += ",\"buf\":" + std::to_string(j.buf) + ",\"stream\":" + std::to_string(j.stream);
    out += ",\"ctx\":" + std::to_string(j.ctx) + ",\"ctxmut\":" + std::to_string(L.ctxmut);
    out += ",\"verbose\":" + std::to_string(j.verbose) + ",\"ws\":" + std::to_string(j.ws) + ",\"nl\":" + std::to_string(j.nl);
    out += ",\"bytes\":"; jbytes(out, j.bytes);
    out += ",\"ok\":"; out += res.has_value() ? "true" : "false";
    out += ",\"threw\":"; jstr(out, threw);
    out += ",\"partial\":"; jstr(out, L.cur);
    out += ",\"overflow\":"; out += L.overflow ? "true" : "false";
    out += ",\"stackspan\":" + std::to_string(long(L.sp_hi - L.sp_lo));
    out += ",\"stream_text\":"; jstr(out, stream_text);
    std::string treejson = "null";
    if (res.has_value()) { treejson.clear(); jtree(treejson, res->t); }
    res.reset();          // the caller drops the result: from here on every value of this parse must have been destroyed
    // VERIF_LIGHT: very long inputs are run for the observers only - no tree, only out-of-range events
    static const bool light = getenv("VERIF_LIGHT") != nullptr;
    if (light)
    {
        std::vector<Event> keep;
        for (const auto& e : L.ev) if (e.k.rfind("oob", 0) == 0 && keep.size() < 20) keep.push_back(e);
        out += ",\"nevents\":" + std::to_string(L.ev.size()) + ",\"tree\":null,\"events\":"; jevents(out, keep);
    }
    else
    {
    out += ",\"tree\":" + treejson;
    out += ",\"events\":"; jevents(out, L.ev);
    }
    out += "}\n";
}
template<typename P> void run_job(const P& p, const Job& j, const std::string& gid, std::string& out) { run_job_impl(p, j, gid, out, true); }
template<typename P> void run_job_nowd(const P& p, const Job& j, const std::string& gid, std::string& out) { run_job_impl(p, j, gid, out, false); }
} // namespace vh

namespace ctpg_verif { struct access; }

namespace vh
{
template<typename P> void dump_parser(const P& p, const std::string& gid, std::string& o);

// dump + diagnostics + all jobs whose id starts with "<gid>:"; `make` returns a new parser (may throw)
template<typename Make>
void serve_one(Make&& make, const std::string& gid, const std::vector<Job>& jobs, FILE* out)
{
    using P = std::remove_pointer_t<decltype(make())>;
    std::unique_ptr<P> p;
    std::string threw, o;
    tl_log.reset();
    try { p.reset(make()); }
    catch (const std::exception& e) { threw = e.what(); }
    if (!p)
    {
        o += "{\"g\":"; jstr(o, gid); o += ",\"construct_threw\":"; jstr(o, threw); o += "}\n";
        fwrite(o.data(), 1, o.size(), out);
        return;
    }
    o += "{\"dump\":";
    dump_parser(*p, gid, o);
    o.back() = '}'; o += "\n";
    {
        std::ostringstream ds;
        std::string dthrew;
        try { p->write_diag_str(ds); }
        catch (const std::exception& e) { dthrew = e.what(); }       // (the bounds hook: the diagnostics overran one of their own buffers)
        if (dthrew.empty()) { o += "{\"diag\":"; jstr(o, ds.str()); o += ",\"g\":"; jstr(o, gid); o += "}\n"; }
        else { o += "{\"diag_threw\":"; jstr(o, dthrew); o += ",\"g\":"; jstr(o, gid); o += "}\n"; }
    }
    fwrite(o.data(), 1, o.size(), out);
    // a table with a reduce/reduce cell has documented-undefined behaviour (the cell's rule is never set): never run it
    if (o.find("[\"rr\",") != std::string::npos && !getenv("VERIF_RUN_RR")) return;
    std::string prefix = gid + ":";
    for (const auto& j : jobs)
    {
        if (j.id.compare(0, prefix.size(), prefix) != 0) continue;
        std::string t;
        run_job(*p, j, gid, t);
        fwrite(t.data(), 1, t.size(), out);
    }
}

// C15: T threads parse concurrently on ONE parser object (each thread its own order of the jobs, its own log), while a
// further thread keeps calling write_diag_str; the object's byte image is compared before / after.
template<typename Make>
void serve_threads(Make&& make, const std::string& gid, const std::vector<Job>& jobs, FILE* out, int T)
{
    using P = std::remove_pointer_t<decltype(make())>;
    std::unique_ptr<P> p(make());
    std::string o = "{\"dump\":";
    dump_parser(*p, gid, o);
    o.back() = '}'; o += "\n";
    {
        // what write_diag_str says about THIS object before any call (compared with the same object's text in a process of its own)
        std::ostringstream ds;
        try { p->write_diag_str(ds); } catch (const std::exception&) {}
        o += "{\"diag\":"; jstr(o, ds.str()); o += ",\"g\":"; jstr(o, gid); o += "}\n";
    }
    fwrite(o.data(), 1, o.size(), out);
    if (o.find("[\"rr\",") != std::string::npos) return;
    std::vector<Job> mine;
    std::string prefix = gid + ":";
    for (const auto& j : jobs) if (j.id.compare(0, prefix.size(), prefix) == 0) mine.push_back(j);
    std::string before(reinterpret_cast<const char*>(p.get()), sizeof(P));
    std::vector<std::string> outs(T);
    std::vector<pthread_t> th(T + 1);
    struct Arg { const P* p; const std::vector<Job>* jobs; std::string* out; const std::string* gid; int k; int T; volatile bool* stop; };
    volatile bool stop = false;
    std::vector<Arg> args;
    for (int k = 0; k <= T; ++k) args.push_back(Arg{ p.get(), &mine, k < T ? &outs[k] : nullptr, &gid, k, T, &stop });
    auto worker = [](void* a) -> void*
    {
        Arg& A = *static_cast<Arg*>(a);
        if (A.k == A.T)
        {
            while (!*A.stop) { std::ostringstream ds; A.p->write_diag_str(ds); }
            return nullptr;
        }
        size_t n = A.jobs->size();
        for (size_t i = 0; i < n; ++i)
        {
            // thread k walks the job list with its own stride and offset: different interleavings, every job per thread
            size_t idx = (i * (2 * size_t(A.k) + 1) + size_t(A.k) * 7) % n;
            if (((2 * size_t(A.k) + 1) % n) == 0 && n > 1) idx = (i + size_t(A.k)) % n;
            Job j = (*A.jobs)[idx];
            j.id += "#t" + std::to_string(A.k);
            run_job_nowd(*A.p, j, *A.gid, *A.out);
        }
        return nullptr;
    };
    for (int k = 0; k <= T; ++k) pthread_create(&th[k], nullptr, worker, &args[k]);
    for (int k = 0; k < T; ++k) pthread_join(th[k], nullptr);
    stop = true;
    pthread_join(th[T], nullptr);
    for (int k = 0; k < T; ++k) fwrite(outs[k].data(), 1, outs[k].size(), out);
    std::string after(reinterpret_cast<const char*>(p.get()), sizeof(P));
    std::string r = "{\"image\":"; jstr(r, gid);
    size_t diff = 0; for (size_t i = 0; i < before.size(); ++i) if (before[i] != after[i]) ++diff;
    r += ",\"bytes\":" + std::to_string(before.size()) + ",\"changed\":" + std::to_string(diff) + ",\"threads\":" + std::to_string(T) + "}\n";
    fwrite(r.data(), 1, r.size(), out);
}

// main() of a generated single-grammar TU: <prog> <jobsfile> <outfile>
template<typename Make>
int gen_main(Make&& make, const char* gid, int argc, char** argv)
{
    if (argc < 3) { fprintf(stderr, "usage: %s <jobs> <out>\n", argv[0]); return 2; }
    int rc = 0;
    run_big_stack([&]
    {
        auto jobs = read_jobs(argv[1]);
        FILE* out = fopen(argv[2], "w");
        if (!out) { perror("out"); rc = 2; return; }
        const char* thr = getenv("VERIF_THREADS");
        if (thr) serve_threads(make, gid, jobs, out, atoi(thr));
        else serve_one(make, gid, jobs, out);
        fclose(out);
    });
    return rc;
}
} // namespace vh

// ---------------------------------------------------------------- the CTPG_VERIF hooks
namespace ctpg_verif
{
[[noreturn]] inline void bounds_fail(const char* what, std::size_t idx, std::size_t cap)
{
    vh::Event e; e.k = "oob"; e.s = what; e.a = { long(idx), long(cap) };
    vh::tl_log.add(std::move(e));
    throw vh::bounds_error(std::string(what) + " idx=" + std::to_string(idx) + " cap=" + std::to_string(cap));
}

struct access
{
    // dump of everything the parser computed for itself; rule numbers are SOURCE numbers (r_idx)
    template<typename P>
    static void dump(const P& p, const std::string& gid, std::string& o)
    {
        using namespace ctpg;
        auto kind_name = [](typename P::parse_table_entry_kind k) -> const char*
        {
            using K = typename P::parse_table_entry_kind;
            switch (k)
            {
            case K::error: return "error"; case K::success: return "accept"; case K::shift: return "shift";
            case K::shift_error_recovery_token: return "shifterr"; case K::reduce: return "reduce"; case K::rr_conflict: return "rr";
            }
            return "?";
        };
        o += "{\"g\":"; vh::jstr(o, gid);
        o += ",\"nnt\":" + std::to_string(P::nterm_count - 1) + ",\"nt\":" + std::to_string(P::term_count - 2);
        o += ",\"rule_count\":" + std::to_string(P::rule_count) + ",\"max_rule_len\":" + std::to_string(P::max_rule_element_count);
        o += ",\"state_count\":" + std::to_string(p.state_count);
        o += ",\"state_cap\":" + std::to_string(P::state_count_cap) + ",\"item_cap\":" + std::to_string(P::max_sit_count_per_state_cap);
        o += ",\"empty_rules\":" + std::to_string(P::empty_rules_count) + ",\"lexer_cap\":" + std::to_string(P::lexer_dfa_size);
        o += ",\"sizeof\":" + std::to_string(sizeof(P));
        o += ",\"term_names\":[";
        for (size_t i = 0; i < P::term_count; ++i) { if (i) o += ','; vh::jstr(o, p.term_names[i] ? p.term_names[i] : ""); }
        o += "],\"nterm_names\":[";
        for (size_t i = 0; i < P::nterm_count; ++i) { if (i) o += ','; vh::jstr(o, p.nterm_names[i] ? p.nterm_names[i] : ""); }
        o += "],\"tprec\":[";
        for (size_t i = 0; i < P::term_count; ++i) { if (i) o += ','; o += std::to_string(p.gi.term_precedences[i]); }
        o += "],\"tassoc\":[";
        for (size_t i = 0; i < P::term_count; ++i) { if (i) o += ','; o += std::to_string(int(p.gi.term_associativities[i])); }
        // rules in source order
        o += "],\"rules\":[";
        for (size_t r = 0; r < P::rule_count; ++r)
        {
            if (r) o += ',';
            size_t ri = 0;
            for (size_t k = 0; k < P::rule_count; ++k) if (p.gi.rule_infos[k].r_idx == r) ri = k;
            const auto& info = p.gi.rule_infos[ri];
            o += "{\"l\":" + std::to_string(info.l_idx) + ",\"pos\":" + std::to_string(ri) + ",\"r\":[";
            for (size_t k = 0; k < info.r_elements; ++k)
            {
                if (k) o += ',';
                const auto& s = p.gi.right_sides[r][k];
                o += std::to_string(s.term ? 100 + s.idx : s.idx);
            }
            o += "],\"prec\":" + std::to_string(p.gi.rule_precedences[r]) + ",\"assoc\":" + std::to_string(int(p.gi.rule_associativities[r]));
            o += ",\"last\":" + std::to_string(p.gi.rule_last_terms[r] == uninitialized16 ? -1 : 100 + int(p.gi.rule_last_terms[r])) + "}";
        }
        o += "],\"states\":[";
        for (size_t s = 0; s < p.state_count; ++s)
        {
            if (s) o += ',';
            o += '[';
            bool first = true;
            for (size32_t j = 0; j < P::situation_address_space_size; ++j)
                if (p.states[s].test(j))
                {
                    auto info = P::make_situation_info(j);
                    if (!first) o += ',';
                    first = false;
                    o += "[" + std::to_string(p.gi.rule_infos[info.rule_info_idx].r_idx) + "," + std::to_string(info.after) + "," + std::to_string(100 + info.t) + "]";
                }
            o += ']';
        }
        o += "],\"table\":[";
        for (size_t s = 0; s < p.state_count; ++s)
        {
            if (s) o += ',';
            o += '[';
            for (size_t c = 0; c < P::symbol_count; ++c)
            {
                if (c) o += ',';
                const auto& e = p.parse_table[s][c];
                long arg = e.arg == uninitialized16 ? -1 : long(e.arg);
                if (e.kind == P::parse_table_entry_kind::reduce && arg >= 0 && size_t(arg) < P::rule_count) arg = p.gi.rule_infos[arg].r_idx;
                o += "[\""; o += kind_name(e.kind); o += "\"," + std::to_string(arg) + "," + std::to_string(int(e.has_sr_conflict)) + "," + std::to_string(rr_flag(e, 0)) + "]";
            }
            o += ']';
        }
        o += "],\"lexer\":";
        if constexpr (P::generate_lexer) dump_dfa(p.lexer_sm, o); else o += "[]";      // (the TLC JSON reader has no null)
        o += "}\n";
    }

    // accept/reduce conflict flag of a cell, when the library version under test has one
    template<typename E> static auto rr_flag(const E& e, int) -> decltype(int(e.has_rr_conflict)) { return int(e.has_rr_conflict); }
    template<typename E> static int rr_flag(const E&, long) { return 0; }

    template<typename Dfa>
    static void dump_dfa(const Dfa& sm, std::string& o)
    {
        using namespace ctpg;
        o += '[';
        for (size_t i = 0; i < sm.size(); ++i)
        {
            if (i) o += ',';
            const auto& st = sm[i];
            o += "{\"start\":" + std::to_string(int(st.start_state)) + ",\"end\":" + std::to_string(int(st.end_state)) + ",\"unr\":" + std::to_string(int(st.unreachable));
            o += ",\"rec\":[";
            bool first = true;
            for (int k = 0; k < 4; ++k)
                if (st.conflicted_recognition[k] != uninitialized16) { if (!first) o += ','; first = false; o += std::to_string(st.conflicted_recognition[k]); }
            o += "],\"tr\":[";
            // maximal runs of equal targets: [lo, hi, to]
            first = true;
            size_t b = 0;
            while (b < regex::transitions_size)
            {
                size_t e = b;
                while (e + 1 < regex::transitions_size && st.transitions[e + 1] == st.transitions[b]) ++e;
                if (st.transitions[b] != uninitialized16)
                {
                    if (!first) o += ',';
                    first = false;
                    o += "[" + std::to_string(b) + "," + std::to_string(e) + "," + std::to_string(st.transitions[b]) + "]";
                }
                b = e + 1;
            }
            o += "]}";
        }
        o += ']';
    }

    template<typename P>
    static const auto& lexer_sm(const P& p) { return p.lexer_sm; }
    template<typename E>
    static const auto& expr_sm(const E& e) { return e.sm; }
};
} // namespace ctpg_verif

namespace vh
{
template<typename P> void dump_parser(const P& p, const std::string& gid, std::string& o) { ctpg_verif::access::dump(p, gid, o); }
}
