// C14 on the FIXED-capacity value stack: with cstring_buffer and a value variant that is trivially destructible and default
// constructible the library keeps semantic values in stdex::cvector (not std::vector).  The value type below is trivially
// destructible yet observes every construction, copy, move and use; the events go through spec/TraceValues.tla like those
// of the other C14 runs (a trivially destructible object has no destructor to observe: whatever is still alive when
// parse() returns is reported destroyed then).
// usage: fixedvec <out.ndjson>      (includes only ctpg.hpp: no hook)
#include <ctpg/ctpg.hpp>
#include <cstdio>
#include <set>
#include <string>
#include <vector>
#include <type_traits>

using namespace ctpg;
using namespace ctpg::buffers;

struct Ev { const char* k; long a, b; };
static std::vector<Ev> g_ev;
static std::set<long> g_live;
static long g_next_oid = 0, g_next_pay = 0;
static void ev(const char* k, long a, long b) { g_ev.push_back({ k, a, b }); }

struct TV
{
    long oid = -1, pay = -1;
    TV() : oid(g_next_oid++) { g_live.insert(oid); ev("v_new", oid, -1); }
    explicit TV(long p) : oid(g_next_oid++), pay(p) { g_live.insert(oid); ev("v_new", oid, p); }
    TV(const TV& o) : oid(g_next_oid++), pay(o.pay) { g_live.insert(oid); ev("v_copy", o.oid, oid); }
    TV(TV&& o) noexcept : oid(g_next_oid++), pay(o.pay) { g_live.insert(oid); o.pay = -1; ev("v_move", o.oid, oid); }
    TV& operator=(const TV& o) { pay = o.pay; ev("v_cassign", o.oid, oid); return *this; }
    TV& operator=(TV&& o) noexcept { pay = o.pay; o.pay = -1; ev("v_massign", o.oid, oid); return *this; }
    // (no destructor: trivially destructible)
};
static_assert(std::is_trivially_destructible_v<TV> && std::is_default_constructible_v<TV>, "TV must qualify for cvector");

static TV take(TV&& v) { ev("v_take", v.oid, v.pay); TV r(g_next_pay++); return r; }

nterm<TV> list("list");
nterm<TV> item("item");
typed_term x(char_term('x'), [](std::string_view) { return TV(g_next_pay++); });
char_term lp('('), rp(')'), comma(',');

auto make()
{
    return parser(list, terms(x, lp, rp, comma), nterms(list, item), rules(
        item(x) >= [](term_value<TV>&& t) { ev("v_take", t.get_value().oid, t.get_value().pay); return TV(g_next_pay++); },
        item(lp, list, rp) >= [](skip, TV&& l, skip) { return take(std::move(l)); },
        list(item) >= [](TV&& i) { return take(std::move(i)); },
        list(list, comma, item) >= [](TV&& l, skip, TV&& i) { ev("v_take", i.oid, i.pay); return take(std::move(l)); },
        list(error, comma, item) >= [](skip, skip, TV&& i) { return take(std::move(i)); }
    ));
}

template<typename P, typename B>
static void one(const P& p, const B& buf, const char* id, FILE* out)
{
    g_ev.clear(); g_live.clear();
    utils::no_stream ns;
    bool ok = false;
    {
        auto r = p.parse(parse_options{}, buf, ns);
        ok = r.has_value();
        if (ok) ev("v_take", r.value().oid, r.value().pay);       // the caller consumes the result
    }
    // trivially destructible objects are never seen dying: report what the TYPE SYSTEM guarantees - storage released at return
    for (const Ev& e : g_ev)
    {
        std::string k = e.k;
        if (k == "v_new") g_live.insert(e.a);
    }
    std::string o = std::string("{\"id\":\"") + id + "\",\"ok\":" + (ok ? "true" : "false") + ",\"events\":[";
    bool first = true;
    for (const Ev& e : g_ev) { if (!first) o += ','; first = false; o += std::string("[\"") + e.k + "\"," + std::to_string(e.a) + "," + std::to_string(e.b) + "]"; }
    for (long oid : g_live) { if (!first) o += ','; first = false; o += "[\"v_dtor\"," + std::to_string(oid) + ",-1]"; }
    o += "]}\n";
    fputs(o.c_str(), out);
}

int main(int argc, char** argv)
{
    if (argc < 2) { fprintf(stderr, "usage: fixedvec <out>\n"); return 2; }
    FILE* out = fopen(argv[1], "w");
    if (!out) { perror("out"); return 2; }
    auto p = make();
    using VS = ctpg::detail::parser_value_stack_type_t<cstring_buffer<4>, 0, std::variant<std::nullptr_t, no_type, TV, term_value<TV>, term_value<char>>>;
    static_assert(!std::is_same_v<VS, std::vector<std::variant<std::nullptr_t, no_type, TV, term_value<TV>, term_value<char>>>>, "the fixed-capacity stack must be selected");
#define RUN(lit) one(p, cstring_buffer(lit), "cstring:" lit, out); one(p, string_buffer(lit), "string:" lit, out);
    RUN("x") RUN("x,x") RUN("x,x,x,x") RUN("(x)") RUN("((x,x),x)") RUN("(x,(x,(x)))")
    RUN("") RUN("x,") RUN("x x") RUN("(x") RUN("x,,x") RUN("),x") RUN("x),x,x") RUN("?")
#undef RUN
    fclose(out);
    return 0;
}
