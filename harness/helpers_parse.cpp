// C02 / C19 through the parser: rules whose functor is one of the documented placeholder objects _e1 .. _e9, construct<>,
// push_back<>, emplace_back<>, val, create - the parse result must be the documented pick of the right-side values.
// Prints one line per case: "HP <name> <expected> <got>"; exit 0 iff all agree.  Includes only ctpg.hpp.
#include <ctpg/ctpg.hpp>
#include <cstdio>
#include <vector>
#include <string>
#include <tuple>
using namespace ctpg;
using namespace ctpg::ftors;
using namespace ctpg::buffers;

static int fails = 0;
static void report(const char* name, long expected, long got) { printf("HP %s %ld %ld\n", name, expected, got); if (expected != got) ++fails; }

constexpr char digit_pattern[] = "[0-9]";
constexpr regex_term<digit_pattern> digit_r("digit");
constexpr nterm<int> d("d");
constexpr nterm<int> root("root");
constexpr nterm<std::vector<int>> lst("lst");

template<size_t K>
long run_e()
{
    auto f = std::get<K - 1>(std::tie(_e1, _e2, _e3, _e4, _e5, _e6, _e7, _e8, _e9));
    parser p(root, terms(digit_r), nterms(root, d),
             rules(d(digit_r) >= [](std::string_view sv) { return int(sv[0] - '0'); },
                   root(d, d, d, d, d, d, d, d, d) >= f));
    auto r = p.parse(string_buffer("1 2 3 4 5 6 7 8 9"));
    return r.has_value() ? r.value() : -1;
}

struct W { int v; W() : v(-7) {} W(int x) : v(x * 10) {} };
constexpr nterm<W> wroot("wroot");

template<size_t K>
long run_construct()
{
    parser p(wroot, terms(digit_r), nterms(wroot, d),
             rules(d(digit_r) >= [](std::string_view sv) { return int(sv[0] - '0'); },
                   wroot(d, d, d, d) >= construct<W, K>{}));
    auto r = p.parse(string_buffer("1 2 3 4"));
    return r.has_value() ? r.value().v : -1;
}

int main()
{
    report("_e1", 1, run_e<1>()); report("_e2", 2, run_e<2>()); report("_e3", 3, run_e<3>());
    report("_e4", 4, run_e<4>()); report("_e5", 5, run_e<5>()); report("_e6", 6, run_e<6>());
    report("_e7", 7, run_e<7>()); report("_e8", 8, run_e<8>()); report("_e9", 9, run_e<9>());
    report("construct<W,1>", 10, run_construct<1>()); report("construct<W,2>", 20, run_construct<2>());
    report("construct<W,3>", 30, run_construct<3>()); report("construct<W,4>", 40, run_construct<4>());
    {   // push_back<1,3>: the container comes first, elements are appended left to right
        parser p(lst, terms(digit_r, ','), nterms(lst, d),
                 rules(d(digit_r) >= [](std::string_view sv) { return int(sv[0] - '0'); },
                       lst() >= create<std::vector<int>>{},
                       lst(lst, ',', d) >= push_back<1, 3>{}));
        auto r = p.parse(string_buffer(",1,2,3"));
        long code = -1;
        if (r.has_value()) { code = 0; for (int x : r.value()) code = code * 10 + x; }
        report("push_back<1,3>/create", 123, code);
    }
    {   // the readme's list: list(number) >= construct<list_type, 1>{} "constructs list_type{value}" - a list of that ONE element
        parser p(lst, terms(digit_r, ','), nterms(lst, d),
                 rules(d(digit_r) >= [](std::string_view sv) { return int(sv[0] - '0'); },
                       lst(d) >= construct<std::vector<int>, 1>{},
                       lst(lst, ',', d) >= push_back<1, 3>{}));
        for (const char* in : { "3,4", "0", "2", "9,0,3" })
        {
            auto r = p.parse(string_buffer(in));
            long code = -1, want = 0;
            if (r.has_value()) { code = 1; for (int x : r.value()) code = code * 10 + x; }
            want = 1; for (const char* c = in; *c; ++c) if (*c != ',') want = want * 10 + (*c - '0');
            report((std::string("construct<vector,1>/push_back<1,3> on ") + in).c_str(), want, code);
        }
    }
    {   // the list and the value BOTH behind a leading symbol, and more symbols behind them (their values convert to int as well):
        // push_back<2,3> in lst('|', lst, d, ';') appends the THIRD value, emplace_back<2,4> in lst('(', lst, ',', d, ')') the fourth
        parser p(lst, terms(digit_r, '|', ';'), nterms(lst, d),
                 rules(d(digit_r) >= [](std::string_view sv) { return int(sv[0] - '0'); },
                       lst() >= create<std::vector<int>>{},
                       lst('|', lst, d, ';') >= push_back<2, 3>{}));
        auto r = p.parse(string_buffer("| | | 1 ; 2 ; 3 ;"));
        long code = -1;
        if (r.has_value()) { code = 0; for (int x : r.value()) code = code * 10 + x; }
        report("push_back<2,3> with a leading and a trailing symbol", 123, code);
        parser q(lst, terms(digit_r, '(', ')', ','), nterms(lst, d),
                 rules(d(digit_r) >= [](std::string_view sv) { return int(sv[0] - '0'); },
                       lst() >= create<std::vector<int>>{},
                       lst('(', lst, ',', d, ')') >= emplace_back<2, 4>{}));
        auto r2 = q.parse(string_buffer("(((,4),5),6)"));
        code = -1;
        if (r2.has_value()) { code = 0; for (int x : r2.value()) code = code * 10 + x; }
        report("emplace_back<2,4> with a leading and a trailing symbol", 456, code);
        parser q2(lst, terms(digit_r, '(', ')', ','), nterms(lst, d),
                  rules(d(digit_r) >= [](std::string_view sv) { return int(sv[0] - '0'); },
                        lst() >= create<std::vector<int>>{},
                        lst('(', d, ',', lst, ')') >= push_back<4, 2>{}));
        auto r3 = q2.parse(string_buffer("(7,(8,(9,)))"));
        code = -1;
        if (r3.has_value()) { code = 0; for (int x : r3.value()) code = code * 10 + x; }
        report("push_back<4,2> with a leading and a trailing symbol", 987, code);
    }
    {   // create<T> is a default T WHATEVER the rule's values are - also when there is exactly one and T could be built from it
        constexpr nterm<int> bit("bit"); constexpr nterm<int> bits("bits");
        parser p(bits, terms('0', '1'), nterms(bits, bit),
                 rules(bit('0') >= create<int>{}, bit('1') >= val(1),
                       bits(bit) >= _e1, bits(bits, bit) >= [](int a, int b) { return a + b; }));
        auto r = p.parse(string_buffer("0110"));
        report("create<int> in bit('0')", 2, r.has_value() ? r.value() : -1);
    }
    {   // emplace_back<3,1>: the element comes first; the innermost list is completed first, so elements arrive right to left
        parser p(lst, terms(digit_r, ','), nterms(lst, d),
                 rules(d(digit_r) >= [](std::string_view sv) { return int(sv[0] - '0'); },
                       lst() >= create<std::vector<int>>{},
                       lst(d, ',', lst) >= emplace_back<3, 1>{}));
        auto r = p.parse(string_buffer("1,2,3,"));
        long code = -1;
        if (r.has_value()) { code = 0; for (int x : r.value()) code = code * 10 + x; }
        report("emplace_back<3,1>/create", 321, code);
    }
    {
        parser p(root, terms(digit_r), nterms(root, d),
                 rules(d(digit_r) >= val(5), root(d, d) >= [](int a, int b) { return a * 10 + b; }));
        auto r = p.parse(string_buffer("1 2"));
        report("val(5)", 55, r.has_value() ? r.value() : -1);
    }
    return fails ? 1 : 0;
}
