// Run-time driver for TERM SETS: builds the lexer automaton with the REAL add_term_data_to_dfa overloads (char,
// string, regex) in terms(...) order, dumps it, and runs the real dfa_match on given strings.
// For every regex term the builder calls are additionally recorded (same recording context as rx.cpp) so that the
// TLA+ transcription of the builder can replay the construction.
//
// usage: lx <jobs> <out>    jobs:  L <id> / C <byte> / S <hex> / R <hexpattern> / X <hexinput> / E
#include "rt.hpp"
using namespace ctpg;

constexpr size_t MAXL = 400;

struct Call { std::string op; std::vector<long> a; std::vector<std::vector<long>> ranges; };
static std::vector<std::vector<long>> subset_ranges(const regex::char_subset& s)
{
    std::vector<std::vector<long>> r;
    size_t i = 0;
    while (i < 256)
    {
        if (!s.test(i)) { ++i; continue; }
        size_t j = i;
        while (j + 1 < 256 && s.test(j + 1)) ++j;
        r.push_back({ long(i), long(j) });
        i = j + 1;
    }
    return r;
}
struct RecBuilder
{
    using slice = utils::slice;
    regex::dfa_builder<MAXL> b;
    std::vector<Call>* calls;
    RecBuilder(regex::dfa<MAXL>& sm, std::vector<Call>& calls) : b(sm), calls(&calls) {}
    slice ret(slice s) { calls->back().a.push_back(long(s.start)); calls->back().a.push_back(long(s.n)); return s; }
    slice primary_char(char c) { calls->push_back({ "char", { long((unsigned char)c) }, {} }); return ret(b.primary_char(c)); }
    slice primary_subset(regex::char_subset s) { calls->push_back({ "set", {}, subset_ranges(s) }); return ret(b.primary_subset(s)); }
    slice star(slice s) { calls->push_back({ "star", { long(s.start), long(s.n) }, {} }); return ret(b.star(s)); }
    slice plus(slice s) { calls->push_back({ "plus", { long(s.start), long(s.n) }, {} }); return ret(b.plus(s)); }
    slice opt(slice s) { calls->push_back({ "opt", { long(s.start), long(s.n) }, {} }); return ret(b.opt(s)); }
    slice rep(slice s, size32_t n) { calls->push_back({ "rep", { long(n), long(s.start), long(s.n) }, {} }); return ret(b.rep(s, n)); }
    slice cat(slice s1, slice s2) { calls->push_back({ "cat", { long(s1.start), long(s1.n), long(s2.start), long(s2.n) }, {} }); return ret(b.cat(s1, s2)); }
    slice alt(slice s1, slice s2) { calls->push_back({ "alt", { long(s1.start), long(s1.n), long(s2.start), long(s2.n) }, {} }); return ret(b.alt(s1, s2)); }
};

struct Term { char kind; std::string data; };
struct LJob { std::string id; std::vector<Term> terms; std::vector<std::string> inputs; };

template<size_t N>
void add_string(const std::string& s, regex::dfa_builder<MAXL>& b, size16_t idx)
{
    char arr[N] = {};
    for (size_t i = 0; i < N - 1; ++i) arr[i] = s[i];
    regex::add_term_data_to_dfa<MAXL, N>(arr, b, idx);
}
template<size_t N>
void add_regex(const std::string& s, regex::dfa_builder<MAXL>& b, size16_t idx)
{
    static thread_local char arr[N];
    for (size_t i = 0; i < N - 1; ++i) arr[i] = s[i];
    arr[N - 1] = 0;
    const char (&ref)[N] = arr;
    regex::regex_pattern_data<N> pd{ ref };
    regex::add_term_data_to_dfa<MAXL, N>(pd, b, idx);
}
inline long g_pred = 0;   // the capacity the library reserves for the term just added (Terms::dfa_size)
template<size_t... I>
bool dispatch_string(const std::string& s, regex::dfa_builder<MAXL>& b, size16_t idx, std::index_sequence<I...>)
{
    bool done = false;
    ((s.size() + 1 == I + 2 ? (add_string<I + 2>(s, b, idx), g_pred = long(string_term<I + 2>::dfa_size), done = true) : false), ...);
    return done;
}
template<size_t... I>
bool dispatch_regex(const std::string& s, regex::dfa_builder<MAXL>& b, size16_t idx, std::index_sequence<I...>)
{
    bool done = false;
    ((s.size() + 1 == I + 2 ? (add_regex<I + 2>(s, b, idx), done = true) : false), ...);
    return done;
}

static void jcalls(std::string& o, const std::vector<Call>& calls)
{
    o += '[';
    for (size_t i = 0; i < calls.size(); ++i)
    {
        if (i) o += ',';
        o += "{\"op\":"; vh::jstr(o, calls[i].op); o += ",\"a\":[";
        for (size_t k = 0; k < calls[i].a.size(); ++k) { if (k) o += ','; o += std::to_string(calls[i].a[k]); }
        o += "],\"ranges\":[";
        for (size_t k = 0; k < calls[i].ranges.size(); ++k) { if (k) o += ','; o += "[" + std::to_string(calls[i].ranges[k][0]) + "," + std::to_string(calls[i].ranges[k][1]) + "]"; }
        o += "]}";
    }
    o += ']';
}

int main(int argc, char** argv)
{
    if (argc < 3) { fprintf(stderr, "usage: lx <jobs> <out>\n"); return 2; }
    int rc = 0;
    vh::run_big_stack([&]
    {
        std::vector<LJob> jobs;
        {
            std::ifstream in(argv[1]);
            std::string line;
            while (std::getline(in, line))
            {
                std::istringstream is(line);
                std::string tag, a;
                is >> tag >> a;
                if (tag == "L") jobs.push_back({ a, {}, {} });
                else if (jobs.empty()) continue;
                else if (tag == "C") jobs.back().terms.push_back({ 'C', std::string(1, char(std::stoi(a))) });
                else if (tag == "S") jobs.back().terms.push_back({ 'S', vh::unhex(a) });
                else if (tag == "R") jobs.back().terms.push_back({ 'R', vh::unhex(a) });
                else if (tag == "X") jobs.back().inputs.push_back(vh::unhex(a));
            }
        }
        FILE* out = fopen(argv[2], "w");
        if (!out) { perror("out"); rc = 2; return; }
        auto sm = std::make_unique<regex::dfa<MAXL>>();
        auto scratch = std::make_unique<regex::dfa<MAXL>>();
        for (const auto& j : jobs)
        {
            std::string o;
            *sm = regex::dfa<MAXL>();
            regex::dfa_builder<MAXL> b(*sm);
            std::string threw;
            std::vector<std::vector<Call>> rcalls(j.terms.size());
            std::vector<long> sizes_after, preds;
            vh::tl_log.reset();
            try
            {
                for (size_t t = 0; t < j.terms.size(); ++t)
                {
                    const Term& tm = j.terms[t];
                    if (tm.kind == 'C') { regex::add_term_data_to_dfa(tm.data[0], b, size16_t(t)); g_pred = long(char_term::dfa_size); }
                    else if (tm.kind == 'S') { if (!dispatch_string(tm.data, b, size16_t(t), std::make_index_sequence<12>{})) throw std::runtime_error("harness: string length unsupported"); }
                    else
                    {
                        if (!dispatch_regex(tm.data, b, size16_t(t), std::make_index_sequence<24>{})) throw std::runtime_error("harness: pattern length unsupported");
                        // record the call sequence of this pattern on a scratch automaton
                        *scratch = regex::dfa<MAXL>();
                        RecBuilder rb(*scratch, rcalls[t]);
                        vh::checked_buffer buf(tm.data, 1);
                        utils::no_stream ns;
                        regex::regex_parser::regex_parser_object.context_parse(rb, parse_options{}.set_skip_whitespace(false), buf, ns);
                        // regex_term<P>::dfa_size = analyze_dfa_size(P): the same analyser run
                        vh::checked_buffer buf2(tm.data, 1);
                        regex::dfa_size_analyzer an;
                        auto ar = regex::regex_parser::regex_parser_object.context_parse(an, parse_options{}.set_skip_whitespace(false), buf2, ns);
                        g_pred = ar.has_value() ? long(ar.value().n) : -1;
                    }
                    sizes_after.push_back(long(sm->size()));
                    preds.push_back(g_pred);
                }
            }
            catch (const std::exception& e) { threw = e.what(); }
            o += "{\"id\":"; vh::jstr(o, j.id);
            o += ",\"threw\":"; vh::jstr(o, threw);
            o += ",\"terms\":[";
            for (size_t t = 0; t < j.terms.size(); ++t)
            {
                if (t) o += ',';
                o += "{\"kind\":\""; o += j.terms[t].kind; o += "\",\"data\":"; vh::jbytes(o, j.terms[t].data);
                o += ",\"calls\":"; jcalls(o, rcalls[t]); o += "}";
            }
            o += "],\"sizes_after\":[";
            for (size_t i = 0; i < sizes_after.size(); ++i) { if (i) o += ','; o += std::to_string(sizes_after[i]); }
            o += "],\"preds\":[";
            for (size_t i = 0; i < preds.size(); ++i) { if (i) o += ','; o += std::to_string(preds[i]); }
            o += "],\"dfa\":";
            if (threw.empty()) ctpg_verif::access::dump_dfa(*sm, o); else o += "null";
            o += ",\"matches\":[";
            if (threw.empty())
            {
                bool first = true;
                for (const auto& s : j.inputs)
                {
                    vh::tl_log.reset();
                    vh::checked_buffer sb(s, 0);
                    utils::no_stream ns;
                    std::string threw3;
                    recognized_term rt;
                    try { rt = regex::dfa_match(*sm, match_options{}, source_point{}, sb.begin(), sb.end(), ns); }
                    catch (const std::exception& e) { threw3 = e.what(); }
                    if (!first) o += ',';
                    first = false;
                    o += "{\"s\":"; vh::jbytes(o, s);
                    o += ",\"idx\":" + std::to_string(rt.term_idx == uninitialized16 ? -1 : long(rt.term_idx));
                    o += ",\"len\":" + std::to_string(rt.term_idx == uninitialized16 ? -1 : long(rt.len));
                    o += ",\"oob\":" + std::to_string(long(vh::tl_log.ev.size())) + ",\"threw\":"; vh::jstr(o, threw3); o += "}";
                }
            }
            o += "]}\n";
            fwrite(o.data(), 1, o.size(), out);
        }
        fclose(out);
    });
    return rc;
}
