// Host translation unit: ONE compiled parser type whose grammar is chosen at run time.
// In ctpg only the arity of a rule and the kind (nterm / term / error) of each right-side element are in the type;
// symbol identity is resolved by name when the parser object is constructed, characters, precedences and
// associativities are constructor arguments.  The host therefore offers a fixed list of rule "slots" (one per shape);
// a grammar descriptor assigns its rules to slots of the right shape, unused slots are parked on the nonterminal
// "Z", which nothing refers to (an unused symbol: legal, and irrelevant for the language).
//
// usage: host <descfile> <jobsfile> <outfile>
//   descfile: lines  "G <id>" / "T <idx> <byte> <prec> <assoc>" / "R <slot> <l> <prec> <rhs...>" / "ROOT <nt>" / "END"
//             several grammars may follow one another; jobs lines carry the grammar id as prefix "<gid>:<jobid>".
#include "rt.hpp"

using namespace ctpg;
using vh::Node;

namespace host
{
struct Shape { int n; char k[4]; };

#ifndef HOST_VARIANT
#define HOST_VARIANT 0
#endif

#if HOST_VARIANT == 0
// plain shapes, arity <= 3
constexpr Shape kSlots[] = {
    {0, ""}, {0, ""}, {0, ""},
    {1, "N"}, {1, "N"}, {1, "N"}, {1, "T"}, {1, "T"}, {1, "T"}, {1, "T"},
    {2, "NN"}, {2, "NN"}, {2, "NN"}, {2, "NT"}, {2, "NT"}, {2, "NT"}, {2, "TN"}, {2, "TN"}, {2, "TN"}, {2, "TT"}, {2, "TT"},
    {3, "NNN"}, {3, "NNN"}, {3, "NNT"}, {3, "NNT"}, {3, "NTN"}, {3, "NTN"}, {3, "NTN"}, {3, "NTN"}, {3, "NTT"}, {3, "NTT"},
    {3, "TNN"}, {3, "TNN"}, {3, "TNT"}, {3, "TNT"}, {3, "TNT"}, {3, "TNT"}, {3, "TTN"}, {3, "TTN"}, {3, "TTT"}, {3, "TTT"},
};
#elif HOST_VARIANT == 1
// shapes with the error symbol
constexpr Shape kSlots[] = {
    {0, ""}, {0, ""},
    {1, "N"}, {1, "N"}, {1, "T"}, {1, "T"}, {1, "T"}, {1, "E"},
    {2, "NN"}, {2, "NN"}, {2, "NT"}, {2, "NT"}, {2, "TN"}, {2, "TN"}, {2, "TT"}, {2, "ET"}, {2, "NE"}, {2, "TE"}, {2, "EN"},
    {3, "NNT"}, {3, "NTN"}, {3, "NTN"}, {3, "TNT"}, {3, "TNT"}, {3, "NNN"}, {3, "TTN"}, {3, "NTT"},
    {3, "NET"}, {3, "NET"}, {3, "TET"}, {3, "ETN"}, {3, "NEN"}, {3, "TEN"},
};
#elif HOST_VARIANT == 2
// small host (max arity 2): the FIRST-slice stride and max-length effects differ from the arity-3 hosts
constexpr Shape kSlots[] = {
    {0, ""}, {0, ""},
    {1, "N"}, {1, "N"}, {1, "N"}, {1, "T"}, {1, "T"}, {1, "T"}, {1, "T"},
    {2, "NN"}, {2, "NN"}, {2, "NN"}, {2, "NT"}, {2, "NT"}, {2, "NT"}, {2, "TN"}, {2, "TN"}, {2, "TN"}, {2, "TT"}, {2, "TT"},
};
#endif
constexpr size_t kSlotCount = sizeof(kSlots) / sizeof(kSlots[0]);
constexpr int kTerms = 8;
constexpr int kNts = 5;       // N0..N3 + parking Z (index 4)

using TT = typed_term<char_term, vh::TermF>;
using NT = nterm<Node>;

struct RuleDesc { bool used = false; int l = kNts - 1; int prec = 0; int rhs[3] = {0, 0, 0}; };
struct Desc
{
    std::string id;
    int tbyte[kTerms]; int tprec[kTerms]; int tassoc[kTerms];
    int root = 0;
    RuleDesc slot[kSlotCount];
    Desc()
    {
        for (int i = 0; i < kTerms; ++i) { tbyte[i] = 1 + i; tprec[i] = 0; tassoc[i] = 0; }
    }
};

const char* kNtNames[kNts] = {"N0", "N1", "N2", "N3", "Z"};

inline NT nt_of(int i) { return NT(kNtNames[i]); }
inline TT term_of(const Desc& d, int i)
{
    return TT(char_term(char(d.tbyte[i]), d.tprec[i], associativity(d.tassoc[i])), vh::TermF{i});
}

template<size_t I, size_t K>
auto sym(const Desc& d)
{
    constexpr char kind = kSlots[I].k[K];
    const RuleDesc& rd = d.slot[I];
    if constexpr (kind == 'N') return nt_of(rd.used ? rd.rhs[K] : kNts - 1);
    else if constexpr (kind == 'T') return term_of(d, rd.used ? rd.rhs[K] : 0);
    else return error;
}

template<size_t I>
auto make_slot(const Desc& d)
{
    const RuleDesc& rd = d.slot[I];
    NT l = nt_of(rd.used ? rd.l : kNts - 1);
    int prec = rd.used ? rd.prec : 0;
    constexpr int n = kSlots[I].n;
    // odd slots attach a NAMED functor object (an lvalue, as `auto f = ...; rule >= f` does), even slots a temporary
    static vh::RuleF named{int(I)};
    if constexpr (I % 2 == 1)
    {
        if constexpr (n == 0) return (l()[prec]) >= named;
        else if constexpr (n == 1) return (l(sym<I, 0>(d))[prec]) >= named;
        else if constexpr (n == 2) return (l(sym<I, 0>(d), sym<I, 1>(d))[prec]) >= named;
        else return (l(sym<I, 0>(d), sym<I, 1>(d), sym<I, 2>(d))[prec]) >= named;
    }
    else if constexpr (n == 0) return (l()[prec]) >= vh::RuleF{int(I)};
    else if constexpr (n == 1) return (l(sym<I, 0>(d))[prec]) >= vh::RuleF{int(I)};
    else if constexpr (n == 2) return (l(sym<I, 0>(d), sym<I, 1>(d))[prec]) >= vh::RuleF{int(I)};
    else return (l(sym<I, 0>(d), sym<I, 1>(d), sym<I, 2>(d))[prec]) >= vh::RuleF{int(I)};
}

template<size_t... I>
auto make_parser_impl(const Desc& d, std::index_sequence<I...>)
{
    return new parser(
        nt_of(d.root),
        terms(term_of(d, 0), term_of(d, 1), term_of(d, 2), term_of(d, 3), term_of(d, 4), term_of(d, 5), term_of(d, 6), term_of(d, 7)),
        nterms(nt_of(0), nt_of(1), nt_of(2), nt_of(3), nt_of(4)),
        rules(make_slot<I>(d)...));
}

inline auto make_parser(const Desc& d) { return make_parser_impl(d, std::make_index_sequence<kSlotCount>{}); }

std::vector<Desc> read_descs(const char* path)
{
    std::vector<Desc> res;
    std::ifstream in(path);
    std::string line;
    Desc cur; bool open = false;
    while (std::getline(in, line))
    {
        std::istringstream is(line);
        std::string tag; is >> tag;
        if (tag == "G") { cur = Desc(); is >> cur.id; open = true; }
        else if (tag == "T") { int i; is >> i; is >> cur.tbyte[i] >> cur.tprec[i] >> cur.tassoc[i]; }
        else if (tag == "ROOT") { is >> cur.root; }
        else if (tag == "R")
        {
            int s; is >> s;
            RuleDesc& rd = cur.slot[s];
            rd.used = true; is >> rd.l >> rd.prec;
            for (int k = 0; k < kSlots[s].n; ++k) is >> rd.rhs[k];
        }
        else if (tag == "END") { if (open) res.push_back(cur); open = false; }
    }
    return res;
}
} // namespace host

int main(int argc, char** argv)
{
    if (argc >= 2 && std::string(argv[1]) == "--shapes")
    {
        for (size_t i = 0; i < host::kSlotCount; ++i) printf("%zu %d %s\n", i, host::kSlots[i].n, host::kSlots[i].k);
        printf("terms %d nts %d\n", host::kTerms, host::kNts);
        return 0;
    }
    if (argc < 4) { fprintf(stderr, "usage: host <desc> <jobs> <out>\n"); return 2; }
    int rc = 0;
    vh::run_big_stack([&]
    {
        auto descs = host::read_descs(argv[1]);
        auto jobs = vh::read_jobs(argv[2]);
        FILE* out = fopen(argv[3], "w");
        if (!out) { perror("out"); rc = 2; return; }
        const char* thr = getenv("VERIF_THREADS");
        for (const auto& d : descs)
        {
            if (thr) vh::serve_threads([&] { return host::make_parser(d); }, d.id, jobs, out, atoi(thr));
            else vh::serve_one([&] { return host::make_parser(d); }, d.id, jobs, out);
        }
        fclose(out);
    });
    return rc;
}
